#!/usr/bin/env bash
# tools/confirm_seed.sh <dir with wt/ and out/> : confirms a seeded change independently
#  (1) patch applies to a clean checkout; (2) repo suite passes with it (demo moved aside);
#  (3) demo fails with it; (4) demo passes without it.
set -u
D="$1"; WT="$D/wt"; OUT="$D/out${2:+/$2}"; export CARGO_TARGET_DIR="$D/target"
DEMO=$(ls "$OUT"/*.rs | head -1)
NAME=$(basename "$DEMO" .rs)
cd "$WT" || exit 2
git checkout -q -- . ; git clean -fdq tests src 2>/dev/null
git apply "$OUT/patch.diff" || { echo "PATCH DOES NOT APPLY"; exit 2; }
echo "== suite with patch"; cargo test --workspace --no-fail-fast --offline 2>&1 | grep -E "^test result|FAILED|panicked|error(\[|:)" | sort | uniq -c
cp "$DEMO" tests/seed_demo.rs
echo "== demo with patch (should FAIL)"; cargo test --offline --test seed_demo 2>&1 | grep -E "^test result|^test .*FAILED|error(\[|:)" | head -12
git apply -R "$OUT/patch.diff"
echo "== demo without patch (should PASS)"; cargo test --offline --test seed_demo 2>&1 | grep -E "^test result|^test .*FAILED|error(\[|:)" | head -12
rm -f tests/seed_demo.rs
git checkout -q -- . ; git clean -fdq tests src 2>/dev/null
