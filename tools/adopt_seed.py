#!/usr/bin/env python3
"""tools/adopt_seed.py <src dir (/tmp/seed/Cxx)> <name> <property> <needs> <caught_by csv> [<missed_before_strengthening csv>] [<strengthening note>]"""
import json, shutil, sys, os, glob
src, name, prop, needs, caught = sys.argv[1:6]
missed = sys.argv[6] if len(sys.argv) > 6 else ""
note = sys.argv[7] if len(sys.argv) > 7 else ""
out = src if os.path.exists(f"{src}/patch.diff") else f"{src}/out"
dst = f"/verif/seeded/{name}"
os.makedirs(dst, exist_ok=True)
shutil.copy(f"{out}/patch.diff", f"{dst}/patch.diff")
for f in glob.glob(f"{out}/*.rs"):
    shutil.copy(f, f"{dst}/demo.rs")
if os.path.exists(f"{out}/notes.md"):
    shutil.copy(f"{out}/notes.md", f"{dst}/notes.md")
meta = {
    "breaks_property": prop,
    "origin": "independent sub-agent given only the property text and a scratch worktree",
    "needs_to_manifest": needs,
    "confirmed": {
        "how": "tools/confirm_seed.sh in a scratch worktree outside /repo and /verif: patch applies to the pinned+fixed tree; `cargo test --workspace --no-fail-fast --offline` passes with it; the demonstration fails with it and passes without it",
        "repo_suite_with_patch": "30 tests + 3 doctests pass",
        "demo_with_patch": "fails", "demo_without_patch": "passes",
    },
    "checked_with": "tools/seedrun.sh <patch> <checks> (git -C /repo apply; ./check <id> quick; git -C /repo checkout -- .)",
    "caught_by_quick": [c for c in caught.split(",") if c],
    "missed_before_strengthening": [c for c in missed.split(",") if c],
    "strengthening": note,
}
json.dump(meta, open(f"{dst}/meta.json", "w"), indent=1)
print("adopted", dst)
