#!/usr/bin/env bash
# runs every planted mutant through the isolated runner; appends to seeded/planted/RESULTS.txt
cd /verif
: > seeded/planted/RESULTS.txt
while IFS=$'\t' read -r name prop checks; do
	echo "### $name (breaks $prop)" >> seeded/planted/RESULTS.txt
	tools/seedrun_iso.sh seeded/planted/$name.diff $checks 2>&1 | grep -E "^---|build failed|does not apply" | cut -c1-220 >> seeded/planted/RESULTS.txt
done < seeded/planted/INDEX.tsv
echo DONE >> seeded/planted/RESULTS.txt
