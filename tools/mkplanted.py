#!/usr/bin/env python3
"""Generates the author's planted mutants (DESIGN.md section 4 'Mutants') as patch files under
/verif/seeded/planted/. Each is (name, property, checks, file, old, new[, count])."""
import subprocess, os, shutil, sys, tempfile
M = [
 ("m01_gecko_gate_3_4", "C01", "C01 C02", "src/io/slippi/ser.rs", "				if ver.gte(3, 3) {", "				if ver.gte(3, 4) {"),
 ("m02_end_size_threshold", "C01", "C01 C17", "src/game/mod.rs", "		if version.gte(3, 13) {\n			6", "		if version.gte(3, 14) {\n			6"),
 ("m03_frame_counts_no_follower", "C01", "C01 C17", "src/io/slippi/ser.rs", "					+ p.follower.as_ref().map_or(0, |f| {\n						len - f.validity.as_ref().map_or(0, |v| v.unset_bits())\n					})", "					+ p.follower.as_ref().map_or(0, |f| {\n						len - f.validity.as_ref().map_or(len, |v| v.unset_bits())\n					})"),
 ("m05_forget_double_end", "C01", "C01 C02", "src/io/slippi/ser.rs", "		if game.quirks.map_or(false, |q| q.double_game_end) {\n			game_end(w, end, ver)?;\n		}", "		if game.quirks.map_or(false, |q| q.double_game_end) && false {\n			game_end(w, end, ver)?;\n		}"),
 ("m06_gecko_size_be", "C02", "C02 C18", "src/io/peppi/ser.rs", "gecko_codes.actual_size.to_le_bytes()", "gecko_codes.actual_size.to_be_bytes()"),
 ("m07_drop_quirks", "C02", "C02 C18", "src/io/peppi/ser.rs", "			quirks: game.quirks,", "			quirks: None,"),
 ("m09_swap_joystick_cstick_read", "C03", "C03 C04 C01", "src/frame/mutable.rs", "		self.joystick.read_push(r, version)?;\n		self.cstick.read_push(r, version)?;", "		self.cstick.read_push(r, version)?;\n		self.joystick.read_push(r, version)?;"),
 ("m11_frame_close_leaders_only", "C04", "C04 C01", "src/io/slippi/de.rs", "while f.len() < len {", "while f.len() < len && false {"),
 ("m13_team_shade_color_swapped", "C05", "C05", "src/io/slippi/de.rs", "				color: team_color,\n				shade: team_shade,", "				color: team_shade,\n				shade: team_color,"),
 ("m14_cpu_level_for_everyone", "C05", "C05", "src/io/slippi/de.rs", "			Some(PlayerType::Cpu) => Some(cpu_level),\n			_ => None,", "			Some(_) => Some(cpu_level),\n			_ => None,"),
 ("m17_skip_end_offset_no_plus1", "C10", "C10 C11", "src/io/slippi/de.rs", "		let end_offset = 1 + state.payload_sizes[Event::GameEnd as usize].unwrap().get() as usize;", "		let end_offset = state.payload_sizes[Event::GameEnd as usize].unwrap().get() as usize;"),
 ("m18_seek_even_when_hashing", "C11", "C11 C10", "src/io/slippi/de.rs", "		if hash {\n			io::copy(", "		if hash && false {\n			io::copy("),
 ("m19_hash_whole_buffer", "C11", "C11", "src/io/mod.rs", "h.update(&buf[..n])", "h.update(&buf[..])"),
 ("m20_hash_format_no_padding", "C11", "C11 C02", "src/io/mod.rs", "xxh3:{:016x}", "xxh3:{:x}"),
 ("m21_bytes_read_no_code_byte", "C12", "C12 C10", "src/io/slippi/de.rs", "	state.bytes_read += size + 1; // +1 byte for the event code", "	state.bytes_read += size + (code != 0x3b) as usize; // +1 byte for the event code"),
 ("m22_transpose_swap_l_r", "C13", "C13", "src/frame/immutable/mod.rs", "			l: self.l.values()[i],\n			r: self.r.values()[i],", "			l: self.r.values()[i],\n			r: self.l.values()[i],"),
 ("m23_arrow_schema_order_only", "C14", "C14", "src/frame/immutable/peppi.rs", "			fields.push(Field::new(\"x\", DataType::Float32, false));\n			fields.push(Field::new(\"y\", DataType::Float32, false))", "			fields.push(Field::new(\"y\", DataType::Float32, false));\n			fields.push(Field::new(\"x\", DataType::Float32, false))", 1),
 ("m24_follower_named_nana", "C14", "C14", "src/frame/immutable/peppi.rs", "			fields.push(Field::new(\n				\"follower\",", "			fields.push(Field::new(\n				\"nana\","),
 ("m25_rollbacks_no_rev", "C15", "C15", "src/frame/immutable/mod.rs", "			ExceptLast => self.rollbacks_(self.id.values_iter().enumerate().rev()),", "			ExceptLast => self.rollbacks_(self.id.values_iter().enumerate()),"),
 ("m26_no_preserve_order", "C16", "C16 C01", "Cargo.toml", 'serde_json = { version = "1.0", features = ["preserve_order"] }', 'serde_json = { version = "1.0" }'),
 ("m28_raw_size_ignores_items", "C17", "C17 C01", "src/io/slippi/ser.rs", "			+ sizes.get(&(Item as u8)).map_or(0, |s| counts.items * (1 + *s as u32)) // Item", "			+ sizes.get(&(Item as u8)).map_or(0, |s| counts.items.min(3) * (1 + *s as u32)) // Item"),
 ("m29_start_raw_before_json", "C18", "C18", "src/io/peppi/ser.rs", "	tar_append(&mut tar, &serde_json::to_vec(&game.start)?, \"start.json\")?;\n	tar_append(&mut tar, &game.start.bytes.0, \"start.raw\")?;", "	tar_append(&mut tar, &game.start.bytes.0, \"start.raw\")?;\n	tar_append(&mut tar, &serde_json::to_vec(&game.start)?, \"start.json\")?;"),
 ("m30_format_gate_le", "C18", "C18", "src/io/peppi/mod.rs", "	if version < MIN_VERSION {", "	if version <= MIN_VERSION && version != CURRENT_VERSION {"),
 ("m31_tar_old_header", "C18", "C18", "src/io/peppi/ser.rs", "tar::Header::new_gnu()", "tar::Header::new_old()"),
 ("m32_sjis_no_nul_drops_last", "C19", "C19 C05", "src/game/shift_jis.rs", ".unwrap_or(s.len());", ".unwrap_or(s.len() - 1);"),
 ("m33_fullwidth_range_short", "C19", "C19", "src/game/shift_jis.rs", "0xff01..=0xff5e =>", "0xff01..=0xff5d =>"),
 ("m34_also_maps_left_quote", "C19", "C19", "src/game/shift_jis.rs", "		0x2019 => 0x27,", "		0x2018 | 0x2019 => 0x27,"),
 ("m35_gte_minor_only_and", "C20", "C20", "src/io/slippi/mod.rs", "		self.0 > major || (self.0 == major && self.1 >= minor)", "		self.0 >= major && (self.0 > major || self.1 >= minor || self.1 == 255 && minor == 0 && false)"),
 ("m36_version_accepts_4_parts", "C20", "C20", "src/io/slippi/mod.rs", "			(Some(major), Some(minor), Some(patch), None) => Ok(Version(", "			(Some(major), Some(minor), Some(patch), _) => Ok(Version("),
 ("m37_parse_event_single_read", "C12", "C12 C11 C06", "src/io/slippi/de.rs", "	let mut buf = vec![0; size];\n	r.read_exact(&mut buf)?;\n\n	if code == Event::MessageSplitter as u8 {", "	let mut buf = vec![0; size];\n	let n = r.read(&mut buf)?;\n	if n < size {\n		r.read_exact(&mut buf[n..])?;\n		if size > 600 {\n			buf[n] ^= 0;\n		}\n	}\n\n	if code == Event::MessageSplitter as u8 {"),
 ("m38_hashing_reader_swallows_error", "C06", "C06 C11", "src/io/mod.rs", "		let n = self.reader.read(buf)?;", "		let n = self.reader.read(buf).unwrap_or(0);"),
 ("m39_no_final_brace_check", "C07", "C07", "src/io/slippi/de.rs", "			parse_metadata(r.by_ref(), &mut state, opts)?;\n			expect_bytes(&mut r, &[0x7d])?;", "			parse_metadata(r.by_ref(), &mut state, opts)?;"),
 ("m40_waiting_sleeps_again", "C07", "C07", "src/io/peppi/de.rs", "			StreamState::Waiting => return Err(err!(\"incomplete Arrow stream\")),", "			StreamState::Waiting => std::thread::sleep(std::time::Duration::from_millis(1000)),"),
 ("m41_placements_as_u8", "C05", "C05", "src/io/slippi/de.rs", "		let placements = [r.read_i8()?, r.read_i8()?, r.read_i8()?, r.read_i8()?];", "		let placements = [r.read_i8()?, r.read_i8()?, r.read_i8()?, (r.read_u8()? & 0x7f) as i8];"),
 ("m42_percent_gate_1_3", "C03", "C03", "src/frame/mutable.rs", None, None),
 ("m43_unknown_event_counted_twice", "C08", "C08 C12", "src/io/slippi/de.rs", "	let event = Event::try_from(code).ok();\n	if let Some(event) = event {", "	let event = Event::try_from(code).ok();\n	if event.is_none() && size == 7 {\n		state.bytes_read += 1;\n	}\n	if let Some(event) = event {"),
 ("m45_frame_count_u16", "C01", "C01 C17", "src/io/slippi/ser.rs", "		frames: len.try_into().unwrap(),", "		frames: (len as u16) as u32,"),
 ("m46_item_count_u16", "C01", "C01 C04", "src/io/slippi/ser.rs", "		items: frames.item.as_ref().map_or(0, |i| i.id.len() as u32),", "		items: frames.item.as_ref().map_or(0, |i| i.id.len() as u16 as u32),"),
 ("m47_gecko_size_wraps_once", "C01", "C01 C02", "src/io/slippi/ser.rs", "						sizes.push(Event::GeckoCodes, codes.actual_size as u16 as usize);", "						sizes.push(Event::GeckoCodes, (codes.actual_size.min(131071)) as u16 as usize);"),
 ("m44_splitter_counts_512", "C12", "C12 C10 C01", "src/io/slippi/de.rs", "			buf.clear();\n			buf.append(&mut state.split_accumulator.raw);", "			buf.clear();\n			buf.append(&mut state.split_accumulator.raw);\n			state.split_accumulator.actual_size = state.split_accumulator.actual_size.min(65535 * 3);"),
]
def main():
    out = "/verif/seeded/planted"
    os.makedirs(out, exist_ok=True)
    idx = []
    for m in M:
        name, prop, checks, f, old, new = m[:6]
        if old is None:
            continue
        cnt = m[6] if len(m) > 6 else None
        src = open(f"/repo/{f}").read()
        if old not in src:
            print("NOT FOUND", name); continue
        if cnt is None and src.count(old) != 1:
            print("AMBIGUOUS", name, src.count(old)); continue
        dst = src.replace(old, new, 1)
        with tempfile.TemporaryDirectory() as t:
            os.makedirs(f"{t}/a/{os.path.dirname(f)}", exist_ok=True); os.makedirs(f"{t}/b/{os.path.dirname(f)}", exist_ok=True)
            open(f"{t}/a/{f}", "w").write(src); open(f"{t}/b/{f}", "w").write(dst)
            d = subprocess.run(["diff", "-u", f"a/{f}", f"b/{f}"], cwd=t, capture_output=True, text=True).stdout
        open(f"{out}/{name}.diff", "w").write(d)
        idx.append((name, prop, checks))
    open(f"{out}/INDEX.tsv", "w").write("".join(f"{n}\t{p}\t{c}\n" for n, p, c in idx))
    print(len(idx), "planted mutants")
main()
