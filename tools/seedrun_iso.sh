#!/usr/bin/env bash
# tools/seedrun_iso.sh <patch.diff> <Cxx>... : like seedrun.sh but on private copies of /repo and the engine
# under /tmp/sr (so /repo stays untouched while background runs use it). Not used for recorded results.
set -u
P="$(realpath "$1")"; shift
SR=${SR:-/tmp/sr}
mkdir -p $SR/root
rsync -a --delete --exclude target --exclude .git /repo/ $SR/repo/
( cd $SR/repo && patch -p1 -s < "$P" ) || { echo "patch does not apply"; exit 2; }
rsync -a --delete --exclude target --exclude fuzz /verif/engine/ $SR/engine/
sed -i "s#path = \"/repo\"#path = \"$SR/repo\"#" $SR/engine/Cargo.toml
rsync -a --delete /verif/regressions $SR/root/ ; cp /verif/KNOWN_FINDINGS.txt $SR/root/
( cd $SR/engine && CARGO_NET_OFFLINE=true cargo build --release 2>$SR/build.log ) || { tail -20 $SR/build.log; echo "build failed"; exit 2; }
for c in "$@"; do
	out=$(PV_ROOT=$SR/root PV_REPO=$SR/repo $SR/engine/target/release/pv check "$c" --tier "${TIER:-quick}" 2>&1 | grep -v "^proptest: Abort")
	echo "--- $c violations=$(echo "$out" | grep -c '^VIOLATION') :: $(echo "$out" | grep -A1 '^VIOLATION' | head -2 | tr '\n' ' ' | cut -c1-300)"
	echo "$out" | tail -1
done
