#!/usr/bin/env bash
# tools/sensitivity.sh [name-glob ...] : re-runs adopted seeded changes against the quick tier of the checks recorded
# as catching them (first three of meta.json's caught_by_quick), on private copies (tools/seedrun_iso.sh, SR=...).
# Prints one line per change; exit 1 if a change that was caught before is now missed by all of them.
# Takes about a minute per change; run several instances with different globs and SR dirs in parallel.
cd /verif
missed=0
LOG=${LOG:-/tmp/sensitivity.log}
: > $LOG
pats=("$@"); [ ${#pats[@]} -eq 0 ] && pats=("*")
for pat in "${pats[@]}"; do
for d in seeded/$pat/; do
	[ -f "$d/meta.json" ] || continue
	n=$(basename "$d")
	checks=$(python3 -c "import json;m=json.load(open('$d/meta.json'));print(' '.join(m['caught_by_quick'][:3]))")
	r=$(SR=${SR:-/tmp/sr3} tools/seedrun_iso.sh "$d/patch.diff" $checks 2>&1 | grep "^--- C")
	hit=$(echo "$r" | grep -E "violations=[1-9]" | sed 's/^--- \(C[0-9]*\).*/\1/' | tr '\n' ',')
	if [ -n "$hit" ]; then echo "caught  $n by ${hit%,} (ran: $checks)"; else echo "MISSED  $n (ran: $checks) :: $(echo "$r" | head -2 | tr '\n' ' ')"; missed=$((missed+1)); fi | tee -a $LOG
done
done
echo "missed=$missed" | tee -a $LOG
[ $missed -eq 0 ]
