#!/usr/bin/env bash
# tools/sensitivity.sh [name-prefix] : re-runs every adopted seeded change (and the planted ones) against the quick tier
# of the property it targets, on private copies (tools/seedrun_iso.sh). Prints one line per change; exit 1 if any
# change that was caught before is now missed. Takes about a minute per change.
cd /verif
missed=0
: > /tmp/sensitivity.log
for d in seeded/${1:-}*/; do
	[ -f "$d/meta.json" ] || continue
	n=$(basename "$d")
	prop=$(python3 -c "import json;print(json.load(open('$d/meta.json'))['breaks_property'])")
	r=$(SR=${SR:-/tmp/sr3} tools/seedrun_iso.sh "$d/patch.diff" "$prop" 2>&1 | grep "^--- $prop")
	v=$(echo "$r" | sed -n 's/.*violations=\([0-9]*\).*/\1/p')
	if [ "${v:-0}" -ge 1 ]; then echo "caught  $n ($prop)"; else echo "MISSED  $n ($prop) :: $r"; missed=$((missed+1)); fi | tee -a /tmp/sensitivity.log
done
echo "missed=$missed" | tee -a /tmp/sensitivity.log
[ $missed -eq 0 ]
