#!/usr/bin/env bash
# tools/process_r2.sh <R2Cxx> <checks...> : confirm both seeds of a round-2 agent and run checks (isolated)
D=/tmp/seed/$1; shift
for k in 1 2; do
	echo "##### $(basename $D) seed $k"
	/verif/tools/confirm_seed.sh $D $k > $D/confirm$k.log 2>&1
	grep -E "^==|test result|APPLY" $D/confirm$k.log | sed 's/; 0 ignored.*//' | tr '\n' ';' | cut -c1-700; echo
	SR=/tmp/sr2 /verif/tools/seedrun_iso.sh $D/out/$k/patch.diff "$@" 2>&1 | cut -c1-260
done
