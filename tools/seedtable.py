#!/usr/bin/env python3
"""Regenerates the seeded-change table in DESIGN.md (between the SEEDTABLE markers) from seeded/*/meta.json
and seeded/planted/RESULTS.txt."""
import json, glob, os, re
rows = []
for d in sorted(glob.glob('/verif/seeded/*/meta.json')):
    m = json.load(open(d))
    name = os.path.basename(os.path.dirname(d))
    rows.append(f"| `{name}` | {m['breaks_property']} | {m['needs_to_manifest']} | {', '.join(m['caught_by_quick']) or '—'} | {', '.join(m.get('missed_before_strengthening', [])) or '—'} |")
tbl = "| seeded change (`/verif/seeded/<name>/`) | breaks | needs, in order to manifest | caught by (quick tier) | first missed by → strengthened |\n|---|---|---|---|---|\n" + "\n".join(rows)
# planted
pl = []
res = '/verif/seeded/planted/RESULTS.txt'
if os.path.exists(res):
    cur = None
    for line in open(res):
        line = line.rstrip()
        if line.startswith('### '):
            cur = [line[4:], []]
            pl.append(cur)
        elif line.startswith('--- ') and cur:
            mm = re.match(r'--- (C\d+) violations=(\d+)', line)
            if mm:
                cur[1].append((mm.group(1), int(mm.group(2))))
            else:
                cur[1].append((line, -1))
        elif ('build failed' in line or 'does not apply' in line) and cur:
            cur[1].append((line, -1))
ptab = "| planted mutant (`/verif/seeded/planted/<name>.diff`) | caught by | not caught by |\n|---|---|---|\n" + "\n".join(
    f"| {n} | {', '.join(c for c, v in r if v > 0) or '—'} | {', '.join(c for c, v in r if v == 0) or '—'}{' (' + '; '.join(c for c, v in r if v < 0) + ')' if any(v < 0 for c, v in r) else ''} |" for n, r in pl)
s = open('/verif/DESIGN.md').read()
a, b = '<!-- SEEDTABLE:BEGIN -->', '<!-- SEEDTABLE:END -->'
if a in s:
    s = s[:s.index(a) + len(a)] + "\n" + tbl + "\n\n" + ptab + "\n" + s[s.index(b):]
    open('/verif/DESIGN.md', 'w').write(s)
print(len(rows), "seeded,", len(pl), "planted")
