#!/usr/bin/env python3-vt
import json, jsonschema, sys, glob
jsonschema.validate(json.load(open('/verif/MANIFEST.json')), json.load(open('/root/.vp/MANIFEST.schema.json')))
s = json.load(open('/root/.vp/EVIDENCE.schema.json'))
for f in sorted(glob.glob('/verif/evidence/*.json')):
    jsonschema.validate(json.load(open(f)), s)
print('manifest + %d evidence files valid' % len(glob.glob('/verif/evidence/*.json')))
