#!/usr/bin/env bash
# tools/benignrun.sh <patch.diff> : all 20 quick checks against a behaviour-preserving / property-respecting change
# (private copies, like seedrun_iso.sh). Any VIOLATION here is a false alarm of the machinery.
P="$(realpath "$1")"
out=$(SR=${SR:-/tmp/sr4} /verif/tools/seedrun_iso.sh "$P" C01 C02 C03 C04 C05 C06 C07 C08 C09 C10 C11 C12 C13 C14 C15 C16 C17 C18 C19 C20 2>&1)
echo "$out" | grep -E "^--- C[0-9]+ violations=[1-9]|build failed|does not apply|inconclusive|machinery" | cut -c1-400
echo "checks run: $(echo "$out" | grep -c '^--- C')  alarms: $(echo "$out" | grep -cE '^--- C[0-9]+ violations=[1-9]')"
