#!/usr/bin/env bash
# tools/process_round.sh <prefix e.g. R5> [ids...] : confirm + run checks for every finished agent dir /tmp/seed/<prefix>Cxx
# compact output: one line per seed. Full logs in /tmp/seed/<dir>/confirm<k>.log and run<k>.log
declare -A REL=( [C01]="C04 C17" [C02]="C14 C18" [C03]="C04 C13" [C04]="C03 C01" [C05]="C19" [C06]="C07" [C07]="C06" [C08]="C10" [C09]="" [C10]="C11" [C11]="C10" [C12]="C13" [C13]="C12" [C14]="C02" [C15]="" [C16]="C01" [C17]="C01" [C18]="C02" [C19]="C05" [C20]="C09" )
PFX="$1"; shift
DIRS="$@"; [ -z "$DIRS" ] && DIRS=$(ls -d /tmp/seed/${PFX}C* 2>/dev/null | xargs -n1 basename)
for dn in $DIRS; do
	D=/tmp/seed/$dn; prop=${dn#$PFX}
	for k in 1 2 3; do
		[ -f $D/out/$k/patch.diff ] || continue
		[ -f $D/done$k ] && continue
		/verif/tools/confirm_seed.sh $D $k > $D/confirm$k.log 2>&1
		suite=$(grep -A8 "== suite with patch" $D/confirm$k.log | grep -c "FAILED\|failed;" )
		suite_fail=$(sed -n '/== suite with patch/,/== demo with patch/p' $D/confirm$k.log | grep "test result" | grep -vc " 0 failed")
		with=$(grep -A12 "== demo with patch" $D/confirm$k.log | grep "test result" | head -1 | grep -c "FAILED")
		without=$(grep -A12 "== demo without patch" $D/confirm$k.log | grep "test result" | head -1 | grep -c "ok\.")
		SR=${SR:-/tmp/sr2} /verif/tools/seedrun_iso.sh $D/out/$k/patch.diff ${ALLCHECKS:-$prop ${REL[$prop]}} > $D/run$k.log 2>&1
		caught=$(grep -E "^--- C[0-9]+ violations=[1-9]" $D/run$k.log | sed 's/^--- \(C[0-9]*\).*/\1/' | tr '\n' ',')
		missed=$(grep -E "^--- C[0-9]+ violations=0" $D/run$k.log | sed 's/^--- \(C[0-9]*\).*/\1/' | tr '\n' ',')
		echo "$dn/$k confirm[suite_fail=$suite_fail demo_with_patch_fails=$with demo_without_passes=$without] caught=${caught:-none} notcaught=${missed:-none} $(grep -q 'build failed\|does not apply' $D/run$k.log && echo BUILD/APPLY-PROBLEM)"
	done
done
