#!/usr/bin/env python3
"""Regenerates MANIFEST.json from the table below (run from /verif)."""
import json, subprocess

CHECKS = {
 "C01": ("exploration", "4.C01", "round-trip oracle over generated replays (independent encoder; proptest choice-stream + version sweep; libFuzzer in thorough)",
         "Generated-input search: an independent byte-level .slp encoder produces well-formed replays over version x ports x ICs x history (rollbacks, absences, items) x gecko x end x metadata; the oracle write(read(b)) == b is exact. Exploration is the right level: the space is unbounded and the oracle is cheap and total.",
         "Trusts the engine's hand-written spec tables (self-tested; all 23 parsable fixtures are in the encoder's image) and proptest's RNG; absence of a violation is 'held on everything explored'."),
 "C02": ("exploration", "4.C02", "round-trip oracle slp->slpp->slp x compression x hash flag, forced-cell enumeration + proptest",
         "Same model space x {none, LZ4, ZSTD} x {hash on, off}; forced cells guarantee zero-frame / no-metadata / no-end / 3.0-3.6 / doubled-end / gecko games under every compression; oracle is byte equality plus hash and quirk equality, hash checked against a one-shot XXH3.",
         "Trusts arrow2's codecs, xxhash-rust's one-shot xxh3_64."),
 "C03": ("exploration", "4.C03", "model-based oracle: decoded columns vs big-endian decode at hand-written spec offsets; exhaustive version x leaf presence matrix; one-hot events",
         "Every leaf of every frame event is compared with the value decoded from the generated payload at the offset of an independent spec table, for all 784 minor versions; presence (Some/None) per version x leaf is enumerated exhaustively; one-hot events make any shift or swap unmistakable.",
         "Trusts spec.rs (contiguity/size self-test; fixtures decoded through it agree with peppi)."),
 "C04": ("exploration", "4.C04", "model-based oracle: the generated event history is the reference model for rows, presence bits, values and item grouping",
         "Enumerated presence/rollback shapes x port layouts x framing regimes plus random histories; the history is the reference model: row count, id column, validity bits, per-row values of present characters, item offsets and order, and one entry per row in every column and nested bitmap.",
         "Values stored for absent characters are unspecified and not compared."),
}

NOT_YET = {}

def main():
    props = [json.loads(l) for l in open("properties.jsonl")]
    checks = []
    na = []
    for p in props:
        pid = p["id"]
        if pid in CHECKS:
            lvl, ref, tech, text, note = CHECKS[pid]
            checks.append({
                "property_id": pid,
                "quick_cmd": f"./check {pid} quick",
                "thorough_cmd": f"./check {pid} thorough",
                "evidence_file": f"/verif/evidence/{pid}.json",
                "replay_cmd_template": f"./check replay {pid} {{path}}",
                "engine": "pv",
                "level_claimed": {"category": lvl, "text": text, "design_ref": ref},
                "level_note": note,
                "technique": tech,
            })
        else:
            na.append({"property_id": pid, "reason": NOT_YET.get(pid, "check not built yet in this session (planned in DESIGN.md section 4); not claimed until it exists")})
    man = {
        "version": 1,
        "setup_cmd": "./check build",
        "hooks": {
            "guard": "peppi_verif",
            "enable": "none needed: every observation point is public API; checks build /repo as a path dependency without any cfg",
            "baseline_off_cmd": "cd /repo && cargo test --workspace --no-fail-fast --offline",
            "source_commits": [],
            "add_only": True,
        },
        "engines": [{"name": "pv", "path": "/verif/engine", "serves_properties": [c["property_id"] for c in checks],
                     "kind_free_text": "Rust crate: independent .slp encoder/decoder + spec tables, choice-stream generator driven by proptest (and libFuzzer in /verif/fuzz), per-property oracles, evidence writer"}],
        "checks": checks,
        "not_applicable": na,
        "notes": "Property-based testing / fuzzing family. ./check <id> <tier> rebuilds the engine against /repo's working tree (content hash forces a peppi rebuild), replays regressions/<id>/*, then runs the enumerated and generated tiers. Exit 0 held / 1 VIOLATION / 2 inconclusive.",
    }
    json.dump(man, open("MANIFEST.json", "w"), indent=1)
    print("checks:", len(checks), "not_applicable:", len(na))

main()
