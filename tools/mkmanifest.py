#!/usr/bin/env python3
"""Regenerates MANIFEST.json from the table below (run from /verif)."""
import json, subprocess

CHECKS = {
 "C01": ("exploration", "4.C01", "round-trip oracle over generated replays (independent encoder; proptest choice-stream + exhaustive minor-version sweep; libFuzzer target model_roundtrip in thorough)",
         "Generated-input search: an independent byte-level .slp encoder produces well-formed replays over version x ports x ICs x history (rollbacks, absences, items) x gecko x end x metadata; the oracle write(read(b)) == b is exact. Exploration is the right level: the space is unbounded and the oracle is cheap and total.",
         "Trusts the engine's hand-written spec tables (self-tested; all 23 parsable fixtures are in the encoder's image) and proptest's RNG; absence of a violation is 'held on everything explored'."),
 "C02": ("exploration", "4.C02", "round-trip oracle slp->slpp->slp x compression x hash flag; forced-cell enumeration + proptest",
         "Same model space x {none, LZ4, ZSTD} x {hash on, off}; forced cells guarantee zero-frame / no-metadata / no-end / 3.0-3.6 / doubled-end / gecko games under every compression; oracle is byte equality plus hash and quirk equality, hash checked against a one-shot XXH3.",
         "Trusts arrow2's codecs and xxhash-rust's one-shot xxh3_64."),
 "C03": ("exploration", "4.C03", "model-based oracle: decoded columns vs big-endian decode at hand-written spec offsets; exhaustive version x leaf presence matrix; one-hot events",
         "Every leaf of every frame event is compared with the value decoded from the generated payload at the offset of an independent spec table, for all 784 minor versions; presence (Some/None) per version x leaf is enumerated exhaustively; one-hot events make any shift or swap unmistakable; one game in four is re-read with frame events wrapped in Message Splitter blocks (refusal tolerated, an accepted game must match the model).",
         "Trusts spec.rs (contiguity/size self-test; fixtures decoded through it agree with peppi)."),
 "C04": ("exploration", "4.C04", "model-based oracle: the generated event history is the reference model for rows, presence bits, values and item grouping",
         "Enumerated presence/rollback shapes x port layouts x framing regimes plus random histories; the history is the reference model: row count, id column, validity bits, per-row values of present characters, item offsets and order, one entry per row in every column and nested bitmap.",
         "Values stored for absent characters are unspecified and not compared."),
 "C05": ("exploration", "4.C05", "model-based oracle: Start/End JSON rendering vs a document built from the raw block at spec offsets; exhaustive Game End cross product; reject classes",
         "Start blocks of all ten length classes with every occupancy/type pattern and full-range mapped bytes, and the complete cross product of Game End blocks (15,655), are compared field by field (through the JSON rendering, read by the engine's own order-preserving JSON reader, plus float bits and raw bytes) with values decoded at the spec offsets; illegal enum bytes / invalid text must be rejected.",
         "Trusts serde_json's f32 text and encoding_rs as the Shift-JIS reference for name fields."),
 "C06": ("exploration", "4.C06", "structure-aware + byte-level mutation of generated replays, option matrix, incremental driver, injected read/seek faults and EINTR, child-process isolation for aborts (libFuzzer targets read_bytes/read_struct in thorough)",
         "No panic / abort / unbounded read loop on corrupted inputs: 22 corruption operators over valid seeds of every regime, all four option combinations, the README incremental loop, a hard I/O error at every read call (must surface as Err), EINTR transparency, and metadata nested up to 10^6 deep in a child process. Exploration: the input space is all byte strings.",
         "Err is always acceptable; allocation size is not judged; hangs would show as exit 2 (inconclusive), not as violations."),
 "C07": ("fault_enumeration", "4.C07", "exhaustive prefix enumeration of generated .slp and .slpp files x options, with a /proc-based sleeping-thread watchdog",
         "Every proper prefix of 48 small .slp files and of 9 .slpp archives (3 games x 3 compressions) x skip-frames on/off is read; larger files at every structural boundary +-k plus random offsets. Truncation points are a finite fault space per file, so enumeration is the right level; files come from the generator.",
         "A reader thread is judged 'sleeping forever' only when parked in nanosleep with zero CPU over three samples on an in-memory input."),
 "C08": ("exploration", "4.C08", "metamorphic + model-based: unknown events inserted at every boundary / newer versions with longer payloads vs the undisturbed parse and the model",
         "Unknown event codes (sizes 1..65535) inserted at event boundaries of generated replays, and versions > 3.16 with 0-40 extra trailing bytes per event: the parse must equal the parse of the undisturbed file and the model field by field.",
         "Quirk flags compared only for unknown-event insertion (see DESIGN)."),
 "C09": ("exploration", "4.C09", "enumeration of versions on both sides of 3.16.0 for both writers (exhaustive reject space for the .slp writer in thorough) + generated newer files",
         "Accept side: generated replays of all 784 supported minors x 8 patches written by both writers; reject side: version field set to boundary + random versions for both writers, every (major, minor) block x 256 patches for the .slp writer, and genuinely newer generated files.",
         "The version field of a parsed game is set directly (public field) on the reject side."),
 "C10": ("exploration", "4.C10", "differential oracle: skip-frames read vs full read, x hash x .slp/.slpp x compression; all minors enumerated",
         "Finished generated replays: skip-frames result equals the full read in start/end/metadata, has zero rows and exactly the version's empty column set, can be written by both writers and re-read; the .slpp reader's skip option likewise.",
         "Unfinished replays are outside the property."),
 "C11": ("exploration", "4.C11", "differential oracle against a one-shot XXH3-64 under generated read schedules (short reads, all two-piece splits), skip on/off",
         "Hash string equals 'xxh3:'+16 hex of an independent one-shot XXH3-64 of the file for every fragmentation schedule and skip mode, reader consumes exactly the file, None when not requested, unchanged through .slpp.",
         "xxhash-rust one-shot function anchored by the published empty-input vector."),
 "C12": ("exploration", "4.C12", "differential oracle: README incremental driver vs one-shot reader under generated read schedules, invariant checked after every call",
         "After every parse_event call: bytes_read equals bytes consumed, frame count monotone, each completed frame bit-equal to the one-shot game's row (and its row view equal to its columns); final start/end/metadata/gecko equal.",
         "The open last frame of a <3.0 stream is compared only for characters present in it."),
 "C13": ("exploration", "4.C13", "two hand-written accessor tables (columns vs row structs) compared at every index of generated games with pairwise-distinct field patterns",
         "Game::frame(i)/transpose_one(i) vs column values at i for every leaf, every row, all 784 minors; items vs offset slice; in-progress representation checked inside C12's driver for every completed frame.",
         "Accessor tables are keyed by public field names."),
 "C14": ("exploration", "4.C14", "schema oracle built from the independent spec table for all 784 minors x 15 port subsets; by-name walk of the struct array vs columns and model; import round trip",
         "data_type() equals the schema derived from spec.rs, each Arrow child (by name) holds the column's bits and validity, and from_struct_array(into_struct_array(f)) serialises to the identical .slp.",
         "For 3.0-3.6 the schema has no `end` child (Arrow forbids empty structs)."),
 "C15": ("exploration", "4.C15", "naive O(n^2) reference model over generated id sequences and parsed replays",
         "Rollback masks for both modes equal the quadratic definition on generated sequences (monotone, repeats, non-adjacent repeats, decreasing, gaps) built directly as a Frame, and on id columns of generated replays.",
         "ids >= -123 and <= -123+2^26."),
 "C16": ("exploration", "4.C16", "round trip through an independent UBJSON encoder, tar walker and order-preserving JSON reader over generated metadata trees",
         "Generated trees (order, unicode, full int32 range, depth to the 127 limit, sizes to 19 MiB): read tree equals the model in order, write reproduces the bytes, metadata.json in the .slpp holds the same ordered tree, absent stays absent.",
         "Depth > 127, duplicate keys and non-int32 numbers are outside the format."),
 "C17": ("exploration", "4.C17", "fixed-point + self-consistency oracle over generated replays with tolerated irregularities; raw element measured by an independent event walker",
         "w = write(read(x)) declares the raw length the engine's walker measures, re-reads to the same game, and write(read(w)) == w, for x with unknown events, junk after Game End, permuted frame events, missing end/metadata.",
         "Equality of w with x is not required."),
 "C18": ("exploration", "4.C18", "independent tar walk + JSON comparison + entry splicing + format-version rewriting over generated archives",
         "Entry list/order/signature/checksums/trailer, JSON entries byte-equal to the rendering of what the reader reconstructs, determinism, unknown entries ignored, format version gate.",
         "frames.arrow is also present for zero-frame games (D3's repair)."),
 "C19": ("exploration", "4.C19", "reference decoder (arithmetic JIS rows + strict encoding_rs) over generated fields, metamorphic bytes-after-NUL relation, exhaustive normalisation over all scalar values",
         "Generated 16/31/10-byte fields (NUL at every position, garbage after it, invalid sequences) through MeleeString::try_from and through Game Start blocks; normalisation checked for all 1,112,064 scalar values.",
         "encoding_rs defines Shift-JIS outside the arithmetic subset."),
 "C20": ("exploration", "4.C20", "exhaustive enumeration (2^32 comparison pairs, 2^24 display/parse triples x 2 types) + grammar-based string generation",
         "gte/lt vs lexicographic comparison for every (version, threshold) pair; Display->FromStr identity for every triple; near-valid strings must be rejected.",
         "Leading '+' and leading zeros are unspecified."),
}

NOT_YET = {}

def main():
    props = [json.loads(l) for l in open("properties.jsonl")]
    checks = []
    na = []
    for p in props:
        pid = p["id"]
        if pid in CHECKS:
            lvl, ref, tech, text, note = CHECKS[pid]
            checks.append({
                "property_id": pid,
                "quick_cmd": f"./check {pid} quick",
                "thorough_cmd": f"./check {pid} thorough",
                "evidence_file": f"/verif/evidence/{pid}.json",
                "replay_cmd_template": f"./check replay {pid} {{path}}",
                "engine": "pv",
                "level_claimed": {"category": lvl, "text": text, "design_ref": ref},
                "level_note": note,
                "technique": tech,
            })
        else:
            na.append({"property_id": pid, "reason": NOT_YET.get(pid, "check not built yet in this session (planned in DESIGN.md section 4); not claimed until it exists")})
    man = {
        "version": 1,
        "setup_cmd": "./check build",
        "hooks": {
            "guard": "peppi_verif",
            "enable": "none needed: every observation point is public API; checks build /repo as a path dependency without any cfg",
            "baseline_off_cmd": "cd /repo && cargo test --workspace --no-fail-fast --offline",
            "source_commits": [],
            "add_only": True,
        },
        "engines": [{"name": "pv", "path": "/verif/engine", "serves_properties": [c["property_id"] for c in checks],
                     "kind_free_text": "Rust crate: independent .slp encoder/decoder + spec tables, choice-stream generator driven by proptest (and libFuzzer in /verif/engine/fuzz), per-property oracles, evidence writer"}],
        "checks": checks,
        "not_applicable": na,
        "notes": "Property-based testing / fuzzing family. ./check <id> <tier> rebuilds the engine against /repo's working tree (content hash forces a peppi rebuild), replays regressions/<id>/*, then runs the enumerated and generated tiers. Exit 0 held / 1 VIOLATION / 2 inconclusive. Cross-cutting generated dimensions used by every check (DESIGN.md section 11, items 14-20): the reader/sink each peppi call goes through (short reads, BufReaders, short writes), deterministic call histories before a share of the cases (incl. calls that must fail), phases with every log call site live, and (C01/C06/C07/C11) the debug option; a failure is re-verified on a fresh thread and its replay file records the history and logging mode it needs.",
    }
    json.dump(man, open("MANIFEST.json", "w"), indent=1)
    print("checks:", len(checks), "not_applicable:", len(na))

main()
