#!/usr/bin/env bash
# tools/seedrun.sh <patch.diff> <Cxx>... : applies the patch to /repo, runs the quick checks, reverts.
set -u
P="$(realpath "$1")"; shift
cd /repo && git diff --quiet || { echo "/repo not clean"; exit 2; }
git -C /repo apply "$P" || { echo "patch does not apply to /repo"; exit 2; }
trap 'git -C /repo checkout -- . ; git -C /repo clean -fdq src tests 2>/dev/null' EXIT
cd /verif
for c in "$@"; do
	out=$(VERIF_EVIDENCE_DIR=/tmp/seedrun_evidence ./check "$c" "${TIER:-quick}" 2>&1 | grep -v "^proptest: Abort"); rc=$?
	echo "--- $c rc=$(echo "$out" | grep -c '^VIOLATION') :: $(echo "$out" | grep -A1 '^VIOLATION' | head -2 | tr '\n' ' ' | cut -c1-300)"
	echo "$out" | tail -1
done
