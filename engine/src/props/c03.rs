//! C03 — every decoded frame field equals the bytes at its spec offset for the version.

use serde_json::{json, Value};

use super::*;
use crate::cmp::game_matches_model;
use crate::gen::{simple_model, Pattern};
use crate::rt::{self, run_dna, run_enum};
use crate::spec::Kind;

fn check(ctx: &Ctx, m: &ModelGame, label: &str, counting: bool) -> Result<(), Fail> {
	let bytes = m.encode();
	super::sibling_history(m, &bytes);
	if counting {
		ctx.eval();
		ctx.class(regime(m));
		ctx.class(label);
		if !m.frames.is_empty() {
			ctx.nontrivial(rt::hash_bytes(&bytes));
		}
		ctx.sample_k(label, 3, || m.summary());
	}
	let g = rt::slp_read_default(&bytes).expect_ok("slippi::read").map_err(|f| f.with_file("slp", &bytes))?;
	game_matches_model(&g, m).map_err(|e| {
		// signature: the leaf path without row numbers
		let key: String = e.split(" row ").next().unwrap_or("").chars().take(80).collect();
		Fail::new(format!("op=field {}", key), format!("v{}.{}: {}", m.version.0, m.version.1, e))
			.with_file("slp", &bytes)
			.with_detail(m.summary())
	})?;
	// the same fields as exposed through the per-frame record view (columns == model was just established,
	// so record view == columns means record view == spec-offset values)
	let view = crate::access::view_immutable(&g.frames);
	let version = g.start.slippi.version;
	for i in 0..g.frames.len() {
		let row = rt::guard(|| Ok::<_, String>(g.frames.transpose_one(i, version))).expect_ok("transpose_one").map_err(|f| f.with_file("slp", &bytes))?;
		super::c13::row_matches(&row, &view, i, version).map_err(|e| {
			let key: String = e.split(" index ").next().unwrap_or("").chars().take(70).collect();
			Fail::new(format!("op=field rowview {}", key), format!("v{}.{} frame index {}: {}", m.version.0, m.version.1, i, e)).with_file("slp", &bytes).with_detail(m.summary())
		})?;
	}
	wrapped_variant(ctx, m, rt::hash_bytes(&bytes), counting)
}

/// The same game with some frame-level events delivered inside one Message Splitter block each (payload
/// zero-padded to 512 bytes, declared size = payload length, wrapped code = the event's code, last = 1).
/// The recorder splits nothing but the Gecko list, so a reader that refuses such a file is not at fault;
/// a reader that accepts it must still decode every field from that event's own bytes.
fn wrapped_variant(ctx: &Ctx, m: &ModelGame, h: u64, counting: bool) -> Result<(), Fail> {
	if h % 4 != 0 || !spec::gte((m.version.0, m.version.1), (3, 3)) || m.frames.is_empty() || m.frames.len() > 400 {
		return Ok(());
	}
	let mut raw = m.raw();
	if !raw.table.iter().any(|&(c, _)| c == spec::EV_SPLITTER) {
		raw.table.push((spec::EV_SPLITTER, 516));
	}
	let stride = 1 + (h >> 8) % 5;
	let mut k = 0u64;
	let mut wrapped = 0u64;
	for ev in raw.events.iter_mut() {
		if !matches!(ev.at, crate::model::Where::Frame(_)) || ev.payload.len() > 512 {
			continue;
		}
		k += 1;
		if k % stride != 0 {
			continue;
		}
		let n = ev.payload.len() as u16;
		let mut p = std::mem::take(&mut ev.payload);
		p.resize(512, 0);
		p.extend_from_slice(&n.to_be_bytes());
		p.push(ev.code);
		p.push(1);
		ev.code = spec::EV_SPLITTER;
		ev.payload = p;
		wrapped += 1;
	}
	if wrapped == 0 {
		return Ok(());
	}
	let bytes = raw.serialize();
	let g = match rt::slp_read_default(&bytes).expect_ok("slippi::read (wrapped frame events)") {
		Ok(g) => g,
		Err(f) if f.sig.contains(" panic~") => return Err(f.with_file("slp", &bytes)),
		Err(_) => {
			if counting {
				ctx.class("wrapped_frame_events_refused");
			}
			return Ok(());
		}
	};
	if counting {
		ctx.class("wrapped_frame_events_accepted");
		ctx.add("wrapped_frame_events", wrapped);
	}
	game_matches_model(&g, m).map_err(|e| {
		let key: String = e.split(" row ").next().unwrap_or("").chars().take(80).collect();
		Fail::new(format!("op=field wrapped {}", key), format!("v{}.{} (frame events inside Message Splitter blocks, every {}th): {}", m.version.0, m.version.1, stride, e))
			.with_file("slp", &bytes)
			.with_detail(m.summary())
	})
}

const PATS: [Pattern; 4] = [Pattern::Distinct, Pattern::Random, Pattern::Special, Pattern::Ones];

fn sweep_model(i: usize) -> ModelGame {
	let minors = spec::all_minors();
	let (ma, mi) = minors[i / 4];
	let k = i % 4;
	let ports: &[(u8, bool)] = match k {
		0 => &[(0, false)],
		1 => &[(1, true), (3, false)],
		2 => &[(0, false), (1, false), (2, false), (3, true)],
		_ => &[(2, false), (3, false)],
	};
	simple_model((ma, mi, if (ma, mi) == (3, 16) { 0 } else { k as u8 * 50 }), ports, 1 + (i % 6), 77 + i as u64, PATS[k], 1, k == 0)
}

/// all payload bytes zero except one leaf (all ones), in frame 1 of 3, for port 0's leader / the
/// frame's first item / start / end.
fn one_hot_cases() -> Vec<((u8, u8), &'static spec::Leaf)> {
	let mut v = Vec::new();
	for ver in spec::LAYOUT_VERSIONS {
		for lf in spec::LEAVES {
			if spec::gte(ver, lf.since) && spec::gte(ver, lf.kind.since()) {
				v.push((ver, lf));
			}
		}
	}
	v
}

fn one_hot_model(ver: (u8, u8), lf: &spec::Leaf) -> ModelGame {
	let mut m = simple_model((ver.0, ver.1, 0), &[(0, false), (1, true)], 3, 5, Pattern::Zero, 1, false);
	for f in m.frames.iter_mut() {
		f.items = if spec::gte(ver, (3, 0)) { vec![crate::gen::payload(Kind::Item, ver, 0, Pattern::Zero, 0); 2] } else { vec![] };
	}
	let f = &mut m.frames[1];
	let o = lf.off - lf.kind.header();
	let n = lf.ty.size();
	let tgt: &mut Vec<u8> = match lf.kind {
		Kind::Pre => &mut f.chars[0].as_mut().unwrap().pre,
		Kind::Post => &mut f.chars[0].as_mut().unwrap().post,
		Kind::Item => &mut f.items[0],
		Kind::FrameStart => f.start.as_mut().unwrap(),
		Kind::FrameEnd => f.end.as_mut().unwrap(),
	};
	tgt[o..o + n].iter_mut().for_each(|b| *b = 0xFF);
	m
}

pub fn case(ctx: &Ctx, kind: &str, params: &Value, counting: bool) -> Result<(), Fail> {
	match kind {
		"sweep" => check(ctx, &sweep_model(params["i"].as_u64().unwrap_or(0) as usize), "sweep", counting),
		"one_hot" => {
			let cases = one_hot_cases();
			let (ver, lf) = cases[params["i"].as_u64().unwrap_or(0) as usize % cases.len()];
			check(ctx, &one_hot_model(ver, lf), "one_hot", counting)
		}
		"large" => check(ctx, &large_model(params["i"].as_u64().unwrap_or(0) as usize), "large_game", counting),
		"fixture" => match fixture_model(&dna_param(params)) {
			Some((_, m)) => check(ctx, &m, "fixture", counting),
			None => Ok(()),
		},
		_ => check(ctx, &model_from_dna(&dna_param(params), &cfg_for(ctx)), "dna", counting),
	}
}

pub fn file_case(bytes: &[u8]) -> Result<(), Fail> {
	let raw = crate::model::walk(bytes).map_err(|e| Fail::new("io", e))?;
	let m = crate::model::model_from_raw(&raw).map_err(|e| Fail::new("io", e))?;
	let g = rt::slp_read_default(bytes).expect_ok("slippi::read")?;
	game_matches_model(&g, &m).map_err(|e| Fail::new("op=field file", e))
}

pub fn run(ctx: &Ctx) -> usize {
	ctx.set_rule("frame events whose every leaf carries a pattern (distinct-per-leaf / random / special floats incl. NaN payloads / all-ones) for all 784 minor versions x 4 port layouts, one-hot events (all bytes zero but one leaf) for every leaf x every layout-introducing version, and random models; oracle: each peppi column value == big-endian decode of the model payload at the offset of the engine's hand-written spec table, and column present <=> version >= introducing version; non-trivial = >=1 frame; distinct by xxh3 of the file");
	ctx.assume("spec.rs offsets are the Slippi spec's (self-tested for contiguity and known sizes; fixtures decoded through the same table agree with peppi)");
	let mut violations = 0;
	crate::selftest::fixtures(ctx);
	crate::selftest::fixtures_vs_model(ctx);
	let n = spec::all_minors().len() * 4;
	if run_enum(ctx, "sweep", n, |i| json!({ "i": i }), |i| check(ctx, &sweep_model(i), "sweep", true)).is_some() {
		violations += 1;
	} else {
		// the presence/absence matrix (784 versions x 68 leaves) was enumerated completely
		ctx.put("presence_matrix_cells_checked", json!(spec::all_minors().len() * spec::LEAVES.len()));
		ctx.put("presence_matrix_exhaustive", json!(true));
	}
	let oh = one_hot_cases();
	ctx.put("one_hot_cases", json!(oh.len()));
	if run_enum(ctx, "one_hot", oh.len(), |i| json!({ "i": i }), |i| check(ctx, &one_hot_model(oh[i].0, oh[i].1), "one_hot", true)).is_some() {
		violations += 1;
	}
	let cfg = cfg_for(ctx);
	if run_dna(ctx, "dna", ctx.n(40_000, 2_000_000), dna_max(ctx), |dna, counting| check(ctx, &model_from_dna(dna, &cfg), "dna", counting)).is_some() {
		violations += 1;
	}
	if fixture_count() > 0 {
		if run_dna(ctx, "fixture", ctx.n(4_000, 200_000), 512, |dna, counting| match fixture_model(dna) {
			Some((_, m)) => check(ctx, &m, "fixture", counting),
			None => Ok(()),
		})
		.is_some()
		{
			violations += 1;
		}
	}
	// games that cross 8-bit / 16-bit counters (items per frame, items in total, frame rows)
	if violations == 0 && run_enum(ctx, "large", LARGE_CASES, |i| json!({ "i": i }), |i| check(ctx, &large_model(i), "large_game", true)).is_some() {
		violations += 1;
	}
	violations
}
