//! One module per property.

use serde_json::Value;

use crate::gen::{Dna, GenCfg};
use crate::model::{EndSpec, ModelGame};
use crate::rt::{Ctx, Fail};
use crate::spec;

pub mod chain;
pub mod c01;
pub mod c02;
pub mod c03;
pub mod c04;
pub mod c09;
pub mod c10;
pub mod c11;
pub mod c05;
pub mod c06;
pub mod c07;
pub mod c08;
pub mod c12;
pub mod c13;
pub mod c15;
pub mod c16;
pub mod c14;
pub mod c17;
pub mod c18;
pub mod c19;
pub mod c20;

pub fn level(prop: &str) -> &'static str {
	match prop {
		"C07" => "fault_enumeration",
		_ => "exploration",
	}
}

/// Runs the property's tiers; returns number of violations reported.
pub fn run(ctx: &Ctx) -> usize {
	match ctx.prop.as_str() {
		"C01" => c01::run(ctx),
		"C02" => c02::run(ctx),
		"C03" => c03::run(ctx),
		"C04" => c04::run(ctx),
		"C09" => c09::run(ctx),
		"C15" => c15::run(ctx),
		"C19" => c19::run(ctx),
		"C20" => c20::run(ctx),
		"C10" => c10::run(ctx),
		"C11" => c11::run(ctx),
		"C08" => c08::run(ctx),
		"C12" => c12::run(ctx),
		"C13" => c13::run(ctx),
		"C16" => c16::run(ctx),
		"C14" => c14::run(ctx),
		"C17" => c17::run(ctx),
		"C05" => c05::run(ctx),
		"C18" => c18::run(ctx),
		"C07" => c07::run(ctx),
		"C06" => c06::run(ctx),
		p => panic!("unknown property {}", p),
	}
}

/// Re-runs one saved case. Err = still failing.
/// [cases preceded by the fixed different-configuration workload, cases preceded by a near-identical sibling]
pub static HISTORIES: [std::sync::atomic::AtomicU64; 2] = [const { std::sync::atomic::AtomicU64::new(0) }; 2];

/// A deterministic predecessor of a case. peppi's public functions are meant to be pure: what a call
/// returns must not depend on which calls were made earlier in the process (caches, statics, reused
/// scratch buffers, lazily initialised tables). Cases share worker threads, so such state is exercised
/// anyway, but not reproducibly; therefore one case in sixteen is preceded by this fixed little workload on
/// a replay of a *different* version / port configuration, derived from the case itself, so that the
/// replay file of a failure contains its own history. Results are ignored.
pub fn warmup(key: u64) {
	use crate::gen::{simple_model, Pattern};
	use peppi::game::Game as _;
	static OFF: std::sync::OnceLock<bool> = std::sync::OnceLock::new();
	if key % 16 != 0 || *OFF.get_or_init(|| std::env::var_os("PV_NO_WARMUP").is_some()) {
		return;
	}
	HISTORIES[0].fetch_add(1, std::sync::atomic::Ordering::Relaxed);
	let h = key >> 4;
	const VERS: [(u8, u8, u8); 10] = [(0, 1, 0), (1, 0, 0), (2, 0, 1), (2, 2, 0), (3, 0, 0), (3, 5, 0), (3, 7, 0), (3, 9, 1), (3, 13, 0), (3, 16, 0)];
	const PORTS: [&[(u8, bool)]; 5] = [&[(0, false)], &[(1, true), (3, false)], &[(0, false), (1, false), (2, false), (3, false)], &[(2, true)], &[(0, false), (3, true)]];
	let v = VERS[(h % 10) as usize];
	let m = simple_model(v, PORTS[((h >> 8) % 5) as usize], 2, h, Pattern::Random, ((h >> 16) % 3) as u8, (h >> 20) & 1 == 0);
	let mut m = m;
	if spec::gte(m.v(), (3, 3)) {
		let blocks = 2 + (h >> 28) as usize % 2;
		m.gecko = Some(crate::model::Gecko { bytes: vec![(h >> 30) as u8 | 1; blocks * 512], actual: (blocks * 512 - 9) as u32 });
	}
	let bytes = m.encode();
	let _ = crate::rt::guard(|| -> Result<(), String> {
		use peppi::io::slippi::de;
		let o = crate::rt::slp_opts(false, true);
		let g = peppi::io::slippi::read(&mut br(&bytes[..]), Some(&o)).map_err(|e| e.to_string())?;
		if g.frames.len() > 0 {
			let _ = g.frame(0);
			let _ = g.frames.rollbacks(peppi::frame::Rollbacks::ExceptLast);
		}
		let _ = serde_json::to_string(&g.start);
		let _ = serde_json::to_string(&g.end);
		let mut w = Vec::new();
		let _ = peppi::io::slippi::write(&mut w, &g);
		let _ = peppi::io::slippi::read(&mut br(&bytes[..]), Some(&crate::rt::slp_opts(true, false)));
		let version = g.start.slippi.version;
		let occ = peppi::game::port_occupancy(&g.start);
		let mut p = Vec::new();
		let _ = peppi::io::peppi::write(&mut p, g, None);
		if let Ok(g2) = peppi::io::peppi::read(&mut br(&p[..]), None) {
			let _ = g2.frames.into_struct_array(version, &occ);
		}
		// the incremental API with a row view, and a read that fails half-way
		let mut r = br(&bytes[..]);
		let size = de::parse_header(&mut r, None).map_err(|e| e.to_string())? as usize;
		let mut st = de::parse_start(&mut r, None).map_err(|e| e.to_string())?;
		while st.bytes_read() < size {
			if de::parse_event(&mut r, &mut st, None).map_err(|e| e.to_string())? == spec::EV_GAME_END {
				break;
			}
		}
		if st.frames().len() > 1 {
			let _ = st.frame(0);
		}
		let _ = peppi::io::slippi::read(&mut br(&bytes[..bytes.len() * 2 / 3]), None);
		Ok(())
	});
	// an accepted name / version string, then the calls that are supposed to fail
	let _ = crate::rt::guard(|| peppi::game::shift_jis::MeleeString::try_from(&[0x82u8, 0x65, 0x82, 0x8f, 0x00][..]));
	let _ = format!("{}.{}.{}", v.0, v.1, v.2).parse::<peppi::io::slippi::Version>();
	error_paths(&m, &bytes, h);
}

/// In-memory reader with a read-call budget (a reader that spins on a truncated input must not hang the
/// predecessor workload: the spin ends in an error, which is ignored here and reported by C06/C07).
fn br(b: &[u8]) -> crate::readers::SchedReader<'_> {
	crate::readers::SchedReader::new(b, crate::readers::Schedule::Full)
}

/// `Write` sink that fails once `left` bytes have been accepted (full disk, closed pipe).
struct FailingSink {
	left: usize,
}
impl std::io::Write for FailingSink {
	fn write(&mut self, buf: &[u8]) -> std::io::Result<usize> {
		if self.left == 0 {
			return Err(std::io::Error::new(std::io::ErrorKind::Other, "injected sink failure"));
		}
		let n = buf.len().min(self.left);
		self.left -= n;
		Ok(n)
	}
	fn flush(&mut self) -> std::io::Result<()> {
		Ok(())
	}
}

/// Calls that are *supposed* to fail, as predecessors: reads cut inside Game Start, inside a frame
/// and inside the metadata, over-deep metadata, an abandoned incremental session, both writers into a
/// sink that fails part-way, a `.slpp` cut inside frames.arrow. Whatever they leave behind must not
/// leak into the next call.
fn error_paths(m: &ModelGame, bytes: &[u8], h: u64) {
	let cut_in_start = (15 + 2 + 3 * m.table().len() + 1 + ((h >> 24) as usize % 300)).min(bytes.len());
	let offs = m.raw().event_offsets();
	let cut_in_frame = (offs.get(offs.len() / 2).copied().unwrap_or(bytes.len() / 2) + 1 + ((h >> 32) as usize % 7)).min(bytes.len());
	let opts = crate::rt::slp_opts((h >> 40) & 1 == 1, (h >> 41) & 1 == 1);
	// successful preparations first: a parsed game and its archive
	let game = || peppi::io::slippi::read(&mut br(bytes), None).ok();
	let archive: Vec<u8> = game()
		.and_then(|g| {
			let mut p = Vec::new();
			crate::rt::guard(|| peppi::io::peppi::write(&mut p, g, None).map_err(|e| e.to_string())).expect_ok("w").ok().map(|_| p)
		})
		.unwrap_or_default();
	let deep: Vec<u8> = {
		let mut d = m.clone();
		let mut t = vec![("leaf".to_string(), crate::model::Meta::Int(1))];
		for i in 0..(128 + (h >> 44) as usize % 40) {
			t = vec![(format!("n{}", i % 5), crate::model::Meta::Map(t))];
		}
		d.metadata = Some(t);
		d.encode()
	};
	// many kinds of hidden state heal after the next call, so the order of the failing calls is rotated:
	// each kind is the *last* call before the case proper for some cases
	// just after the first of several Message Splitter blocks (a Gecko list still being reassembled)
	let cut_in_gecko = {
		let raw = m.raw();
		let sp: Vec<usize> = raw.events.iter().enumerate().filter(|(_, e)| e.code == spec::EV_SPLITTER).map(|(i, _)| i).collect();
		if sp.len() >= 2 {
			Some(offs[sp[0] + 1].min(bytes.len()))
		} else {
			None
		}
	};
	const N: usize = 11;
	for k in 0..N {
		match (k + (h % N as u64) as usize) % N {
			0 => {
				let _ = crate::rt::guard(|| peppi::io::slippi::read(&mut br(&bytes[..cut_in_start]), Some(&opts)));
			}
			1 => {
				let _ = crate::rt::guard(|| peppi::io::slippi::read(&mut br(&bytes[..cut_in_frame]), Some(&opts)));
			}
			2 => {
				let _ = crate::rt::guard(|| peppi::io::slippi::read(&mut br(&bytes[..bytes.len().saturating_sub(2)]), Some(&opts)));
			}
			3 => {
				// an incremental session abandoned in the middle of a frame
				let _ = crate::rt::guard(|| -> Result<(), String> {
					use peppi::io::slippi::de;
					let mut r = br(&bytes[..cut_in_frame]);
					de::parse_header(&mut r, None).map_err(|e| e.to_string())?;
					let mut st = de::parse_start(&mut r, None).map_err(|e| e.to_string())?;
					for _ in 0..(offs.len() / 2 + 1) {
						de::parse_event(&mut r, &mut st, None).map_err(|e| e.to_string())?;
					}
					Ok(())
				});
			}
			4 => {
				// metadata nested beyond the limit: refused
				let _ = crate::rt::guard(|| peppi::io::slippi::read(&mut br(&deep[..]), None));
			}
			5 => {
				if let Some(g) = game() {
					let mut sink = FailingSink { left: bytes.len() * (1 + (h >> 48) as usize % 3) / 4 };
					let _ = crate::rt::guard(|| peppi::io::slippi::write(&mut sink, &g));
					// ... and one that fails inside the metadata block / closing braces
					let mut sink = FailingSink { left: bytes.len().saturating_sub(1 + (h >> 46) as usize % 24) };
					let _ = crate::rt::guard(|| peppi::io::slippi::write(&mut sink, &g));
				}
			}
			6 => {
				if let (Some(g), false) = (game(), archive.is_empty()) {
					let mut sink = FailingSink { left: archive.len() - 1024.min(archive.len() / 2) - (h >> 50) as usize % 512 };
					let _ = crate::rt::guard(|| peppi::io::peppi::write(&mut sink, g, None).map_err(|e| e.to_string()));
				}
			}
			7 => {
				if !archive.is_empty() {
					let cut = archive.len().saturating_sub(1536 + (h >> 52) as usize % 700);
					let _ = crate::rt::guard(|| peppi::io::peppi::read(&mut br(&archive[..cut]), None));
				}
			}
			8 => {
				let _ = crate::rt::guard(|| peppi::game::shift_jis::MeleeString::try_from(&[0x83u8, 0x41, 0x61, 0x82, 0x00][..]));
			}
			9 => {
				if let Some(c) = cut_in_gecko {
					let _ = crate::rt::guard(|| peppi::io::slippi::read(&mut br(&bytes[..c]), None));
				}
			}
			_ => {
				let _ = "3.16.256".parse::<peppi::io::slippi::Version>();
				let _ = "7.x.0".parse::<peppi::io::slippi::Version>();
				let _ = "2.0.x".parse::<peppi::io::peppi::Version>();
			}
		}
	}
}

/// One case in sixteen (chosen by the file's hash): before the case proper, a *near-identical sibling*
/// of the case's replay — same version and ports, but a different Gecko list size, metadata, item
/// count or set of unknown events — goes through the public calls, including the failing ones above.
/// (`warmup` covers state keyed too narrowly, e.g. a cache that ignores the ports; this covers state
/// keyed too coarsely, e.g. a table memoised per version that also depends on the game.)
pub fn sibling_history(m: &ModelGame, bytes: &[u8]) {
	static OFF: std::sync::OnceLock<bool> = std::sync::OnceLock::new();
	let h = crate::rt::hash_bytes(bytes);
	if h % 16 != 3 || m.version > spec::MAX_VERSION || *OFF.get_or_init(|| std::env::var_os("PV_NO_WARMUP").is_some()) {
		return;
	}
	HISTORIES[1].fetch_add(1, std::sync::atomic::Ordering::Relaxed);
	let mut s = m.clone();
	let sel = (h >> 4) % 4;
	if sel == 0 || sel == 3 {
		if spec::gte(m.v(), (3, 3)) {
			let blocks = 1 + (h >> 8) as usize % 3 + m.gecko.as_ref().map_or(0, |g| g.bytes.len() / 512);
			s.gecko = Some(crate::model::Gecko { bytes: vec![(h >> 16) as u8; blocks * 512], actual: (blocks * 512 - (h >> 24) as usize % 500) as u32 });
		} else {
			s.frames.truncate(s.frames.len() / 2);
		}
	}
	if sel == 1 || sel == 3 {
		s.metadata = match &m.metadata {
			Some(t) => {
				let mut t = t.clone();
				t.insert(0, (format!("sibling{}", h % 97), crate::model::Meta::Str("x".repeat((h >> 12) as usize % 200))));
				Some(t)
			}
			None => Some(vec![("startAt".into(), crate::model::Meta::Str("2024".into()))]),
		};
	}
	if sel == 2 {
		if let Some(f) = s.frames.last_mut() {
			if spec::gte(m.v(), (3, 0)) {
				let it = crate::gen::payload(spec::Kind::Item, m.v(), h, crate::gen::Pattern::Random, m.extra.item);
				f.items.push(it.clone());
				f.items.push(it);
			}
		}
		s.frames.rotate_left(0);
	}
	let mut raw = s.raw();
	if sel >= 2 {
		let dna: Vec<u8> = (0..64).map(|k| (h >> (k % 56)) as u8 ^ k as u8).collect();
		c08::insert_unknown(&mut raw, &mut Dna::new(&dna), 3);
	}
	let sb = raw.serialize();
	let _ = crate::rt::guard(|| -> Result<(), String> {
		let g = peppi::io::slippi::read(&mut br(&sb[..]), Some(&crate::rt::slp_opts(false, true))).map_err(|e| e.to_string())?;
		let mut w = Vec::new();
		let _ = peppi::io::slippi::write(&mut w, &g);
		let _ = peppi::io::slippi::read(&mut br(&sb[..]), Some(&crate::rt::slp_opts(true, true)));
		let mut p = Vec::new();
		let _ = peppi::io::peppi::write(&mut p, g, None);
		let _ = peppi::io::peppi::read(&mut br(&p[..]), None);
		Ok(())
	});
	// the failing calls and the near-identical read, either one last (single-entry caches remember the most
	// recent call; stale state left by a failed call often heals after the next successful one)
	let near_read = |bytes: &[u8]| {
		// the case's own file with only its *last* unknown payload-table entry (and those payloads) one byte
		// longer: same table length, same leading entries, different tail
		if let Ok(mut near) = crate::model::walk(bytes) {
			if let Some(k) = near.table.iter().rposition(|(c, _)| !spec::KNOWN_CODES.contains(c)) {
				let (code, size) = near.table[k];
				let new = if size == u16::MAX { size - 1 } else { size + 1 };
				near.table[k].1 = new;
				for e in near.events.iter_mut().filter(|e| e.code == code) {
					e.payload.resize(new as usize, 0x5a);
				}
				near.raw_len = None;
				let nb = near.serialize();
				let _ = crate::rt::guard(|| peppi::io::slippi::read(&mut br(&nb[..]), None));
			}
		}
	};
	if (h >> 60) & 1 == 0 {
		error_paths(&s, &s.encode(), h);
		near_read(bytes);
	} else {
		near_read(bytes);
		error_paths(&s, &s.encode(), h);
	}
}

fn warm_key_of(kind: &str, params: &Value) -> u64 {
	match params.get("dna").and_then(|d| d.as_str()) {
		Some(hex) => crate::rt::warm_key_dna(&crate::rt::unhex(hex)),
		None => crate::rt::warm_key_enum(kind, params.get("i").and_then(|i| i.as_u64()).unwrap_or(0) as usize),
	}
}

pub fn replay(ctx: &Ctx, kind: &str, params: &Value) -> Result<(), Fail> {
	// a recorded history (cases that ran before the failing one on its thread) is re-enacted first
	if let Some(h) = params.get("history").and_then(|h| h.as_array()) {
		for item in h {
			let mut p = params.clone();
			if let Some(obj) = p.as_object_mut() {
				obj.remove("history");
				match item {
					Value::String(_) => obj.insert("dna".into(), item.clone()),
					_ => obj.insert("i".into(), item.clone()),
				};
			}
			let _ = replay(ctx, kind, &p);
		}
	}
	crate::rt::set_logging(params.get("logging").and_then(|l| l.as_bool()).unwrap_or(false));
	if kind != "fuzz" {
		warmup(warm_key_of(kind, params));
	}
	if kind == "fuzz" {
		return fuzz_one(params["target"].as_str().unwrap_or(""), &crate::rt::unhex(params["input"].as_str().unwrap_or("")));
	}
	match ctx.prop.as_str() {
		"C01" => c01::case(ctx, kind, params, false),
		"C02" => c02::case(ctx, kind, params, false),
		"C03" => c03::case(ctx, kind, params, false),
		"C04" => c04::case(ctx, kind, params, false),
		"C06" => c06::case(ctx, kind, params, false),
		"C07" => c07::case(ctx, kind, params, false),
		"C18" => c18::case(ctx, kind, params, false),
		"C05" => c05::case(ctx, kind, params, false),
		"C17" => c17::case(ctx, kind, params, false),
		"C14" => c14::case(ctx, kind, params, false),
		"C16" => c16::case(ctx, kind, params, false),
		"C13" => c13::case(ctx, kind, params, false),
		"C12" => c12::case(ctx, kind, params, false),
		"C08" => c08::case(ctx, kind, params, false),
		"C11" => c11::case(ctx, kind, params, false),
		"C10" => c10::case(ctx, kind, params, false),
		"C20" => c20::case(ctx, kind, params, false),
		"C19" => c19::case(ctx, kind, params, false),
		"C15" => c15::case(ctx, kind, params, false),
		"C09" => c09::case(ctx, kind, params, false),
		p => panic!("unknown property {}", p),
	}
}

/// Oracle on a saved raw input file (regression tier, and fuzz artefacts).
pub fn regress_file(ctx: &Ctx, path: &str) -> Result<(), Fail> {
	let _ = &path;
	if path.ends_with(".json") {
		let text = std::fs::read_to_string(path).map_err(|e| Fail::new("io", e.to_string()))?;
		let v: Value = serde_json::from_str(&text).map_err(|e| Fail::new("io", e.to_string()))?;
		return replay(ctx, v["kind"].as_str().unwrap_or("dna"), &v["params"]);
	}
	let bytes = std::fs::read(path).map_err(|e| Fail::new("io", e.to_string()))?;
	match ctx.prop.as_str() {
		"C01" => c01::file_case(&bytes),
		"C02" => c02::file_case(&bytes),
		"C03" => c03::file_case(&bytes),
		"C04" => c04::file_case(&bytes),
		"C17" => c17::file_case(&bytes),
		"C06" => c06::file_case(&bytes),
		"C07" => c07::file_case(ctx, path, &bytes),
		p => panic!("unknown property {}", p),
	}
}

/// Replays every file under regressions/<prop>/ (sorted). Returns number of violations.
pub fn regressions(ctx: &Ctx) -> usize {
	let dir = format!("{}/regressions/{}", ctx.root, ctx.prop);
	let mut files: Vec<String> = match std::fs::read_dir(&dir) {
		Ok(d) => d.filter_map(|e| e.ok()).map(|e| e.path().to_string_lossy().to_string()).collect(),
		Err(_) => return 0,
	};
	files.sort();
	let mut v = 0;
	let mut n = 0;
	for f in files {
		if f.ends_with(".md") || f.ends_with(".txt") {
			continue;
		}
		n += 1;
		ctx.eval();
		if let Err(fail) = regress_file(ctx, &f) {
			if ctx.is_known(&fail) {
				continue;
			}
			println!("VIOLATION property={} replay={}", ctx.prop, f);
			println!("  regression input fails again: {}: {}", fail.sig, fail.msg);
			v += 1;
		}
	}
	ctx.put("regression_inputs_replayed", serde_json::json!(n));
	v
}

pub fn cfg_for(ctx: &Ctx) -> GenCfg {
	if ctx.quick() {
		GenCfg::quick()
	} else {
		GenCfg::thorough()
	}
}

pub fn dna_max(ctx: &Ctx) -> usize {
	ctx.n(2048, 8192)
}

pub fn model_from_dna(dna: &[u8], cfg: &GenCfg) -> ModelGame {
	crate::gen::gen_model(&mut Dna::new(dna), cfg)
}

pub fn dna_param(params: &Value) -> Vec<u8> {
	crate::rt::unhex(params.get("dna").and_then(|v| v.as_str()).unwrap_or(""))
}

pub fn regime(m: &ModelGame) -> &'static str {
	let v = m.v();
	if !spec::gte(v, (2, 2)) {
		"regime<2.2"
	} else if !spec::gte(v, (3, 0)) {
		"regime2.2-2.x"
	} else {
		"regime>=3.0"
	}
}

pub struct Features {
	pub frames: usize,
	pub rollback: bool,
	pub gap: bool,
	pub absent: bool,
	pub gone_and_back: bool,
	pub items: usize,
	pub ics: bool,
	pub ports: usize,
	pub gecko: bool,
	pub no_end: bool,
	pub double_end: bool,
	pub metadata: bool,
}

pub fn features(m: &ModelGame) -> Features {
	let ns = m.slots().len();
	let mut gone_and_back = false;
	for s in 0..ns {
		let pres: Vec<bool> = m.frames.iter().map(|f| f.chars[s].is_some()).collect();
		// present, then absent, then present again
		let first = pres.iter().position(|p| *p);
		if let Some(a) = first {
			if let Some(b) = pres[a..].iter().position(|p| !*p) {
				if pres[a + b..].iter().any(|p| *p) {
					gone_and_back = true;
				}
			}
		}
	}
	Features {
		frames: m.frames.len(),
		rollback: m.frames.windows(2).any(|w| w[1].id <= w[0].id),
		gap: m.frames.windows(2).any(|w| w[1].id > w[0].id + 1),
		absent: m.frames.iter().any(|f| f.chars.iter().any(|c| c.is_none())),
		gone_and_back,
		items: m.frames.iter().map(|f| f.items.len()).sum(),
		ics: m.ports.iter().any(|p| p.ics),
		ports: m.ports.len(),
		gecko: m.gecko.is_some(),
		no_end: m.end == EndSpec::None,
		double_end: matches!(m.end, EndSpec::Two(_)),
		metadata: m.metadata.is_some(),
	}
}

pub fn classify(ctx: &Ctx, m: &ModelGame) -> Features {
	let f = features(m);
	ctx.class(regime(m));
	ctx.class(&format!("ports={}", f.ports));
	if f.frames == 0 {
		ctx.class("zero_frames");
	}
	if f.rollback {
		ctx.class("rollback");
	}
	if f.gap {
		ctx.class("id_gap");
	}
	if f.absent {
		ctx.class("absent_char");
	}
	if f.gone_and_back {
		ctx.class("gone_and_back");
	}
	if f.items > 0 {
		ctx.class("items");
	}
	if f.ics {
		ctx.class("ice_climbers");
	}
	if f.gecko {
		ctx.class("gecko");
		if m.gecko.as_ref().unwrap().actual > 65535 {
			ctx.class("gecko>64KiB");
		}
	}
	if f.no_end {
		ctx.class("no_end");
	}
	if f.double_end {
		ctx.class("double_end");
	}
	ctx.class(if f.metadata { "metadata" } else { "no_metadata" });
	if spec::LAYOUT_VERSIONS.contains(&m.v()) {
		ctx.class("layout_boundary_version");
	}
	f
}

pub fn nontrivial_game(f: &Features) -> bool {
	f.frames >= 1
		&& (f.absent || f.rollback || f.items > 0 || f.gecko || f.no_end || f.double_end || !f.metadata || f.ics || f.ports >= 3)
}

/// first differing offset between two byte strings, with the event it falls in (per the model's raw file)
pub fn describe_diff(expected: &[u8], got: &[u8], m: &ModelGame) -> String {
	let n = expected.len().min(got.len());
	let i = (0..n).find(|&i| expected[i] != got[i]).unwrap_or(n);
	let raw = m.raw();
	let offs = raw.event_offsets();
	let wh = if i < 11 {
		"file signature".to_string()
	} else if i < 15 {
		"declared raw length".to_string()
	} else if i < offs[0] {
		"payload size table".to_string()
	} else {
		match offs.windows(2).position(|w| i >= w[0] && i < w[1]) {
			Some(k) => format!("event #{} code {:#x} ({:?}) at +{}", k, raw.events[k].code, raw.events[k].at, i - offs[k]),
			None => "after the raw element (metadata / closing brace)".to_string(),
		}
	};
	let differing = (0..n).filter(|&i| expected[i] != got[i]).count() + expected.len().max(got.len()) - n;
	format!(
		"first difference at offset {} in {}; lengths expected {} got {}; {} bytes differ",
		i,
		wh,
		expected.len(),
		got.len(),
		differing
	)
}

// ---- libFuzzer entry points: the same oracles, driven by coverage-guided byte mutation ---------

pub const FUZZ_TARGETS: [(&str, &str); 6] = [
	("read_bytes", "C06"),
	("read_struct", "C06"),
	("model_roundtrip", "C01"),
	("irregular_fixpoint", "C17"),
	("incremental_diff", "C12"),
	("truncate_prefix", "C07"),
];

fn fuzz_ctx(prop: &str) -> &'static Ctx {
	use std::sync::OnceLock;
	static CTX: OnceLock<Ctx> = OnceLock::new();
	CTX.get_or_init(|| {
		crate::rt::install_panic_hook();
		let root = std::env::var("PV_ROOT").unwrap_or_else(|_| "/verif".into());
		Ctx::new(prop, crate::rt::Tier::Thorough, 0, "exploration", &root)
	})
}

/// One input through the target's oracle. Ok = property held on this input.
pub fn fuzz_one(target: &str, data: &[u8]) -> Result<(), Fail> {
	let prop = FUZZ_TARGETS.iter().find(|(t, _)| *t == target).map(|(_, p)| *p).unwrap_or("C06");
	let ctx = fuzz_ctx(prop);
	match target {
		"read_bytes" => c06::fuzz_bytes(ctx, data),
		"read_struct" => c06::fuzz_dna(ctx, data),
		"model_roundtrip" => {
			let m = model_from_dna(data, &GenCfg::quick());
			c01::roundtrip(&m)?;
			if data.first().map_or(false, |b| b % 4 == 0) {
				c02::trip(&m.encode(), crate::rt::Comp::ALL[(data[0] as usize / 4) % 3], true)?;
			}
			Ok(())
		}
		"irregular_fixpoint" => c17::case(ctx, "dna", &serde_json::json!({"dna": crate::rt::hex(data)}), false),
		"incremental_diff" => c12::case(ctx, "dna", &serde_json::json!({"dna": crate::rt::hex(data)}), false),
		"truncate_prefix" => c07::fuzz_dna(data),
		t => panic!("unknown fuzz target {}", t),
	}
}

/// libFuzzer target body: aborts (=> crash artefact) when the oracle fails on an unlisted finding.
pub fn fuzz_entry(target: &str, data: &[u8]) {
	let prop = FUZZ_TARGETS.iter().find(|(t, _)| *t == target).map(|(_, p)| *p).unwrap_or("C06");
	let ctx = fuzz_ctx(prop);
	if let Err(f) = fuzz_one(target, data) {
		if ctx.is_known(&f) {
			return;
		}
		eprintln!("PV-FUZZ-FAIL target={} sig={} :: {}", target, f.sig, f.msg);
		std::process::abort();
	}
}

// ---- fixture-derived models: real recorder output (start blocks, metadata, gecko lists, event mix) with
// generated windows, payload patterns, absences and rollbacks -------------------------------------

fn fixture_bank() -> &'static Vec<(String, ModelGame)> {
	use std::sync::OnceLock;
	static BANK: OnceLock<Vec<(String, ModelGame)>> = OnceLock::new();
	BANK.get_or_init(|| {
		let mut v = Vec::new();
		let dir = crate::selftest::fixture_dir();
		let mut entries: Vec<_> = match std::fs::read_dir(&dir) {
			Ok(d) => d.filter_map(|e| e.ok()).map(|e| e.path()).collect(),
			Err(_) => return v,
		};
		entries.sort();
		for p in entries {
			let name = p.file_name().unwrap().to_string_lossy().to_string();
			if !name.ends_with(".slp") || name == "corrupt.slp" || name == "unknown_event.slp" {
				continue;
			}
			if std::fs::metadata(&p).map(|m| m.len()).unwrap_or(0) > 400_000 {
				continue;
			}
			if let Ok(bytes) = std::fs::read(&p) {
				if let Ok(raw) = crate::model::walk(&bytes) {
					if let Ok(mut m) = crate::model::model_from_raw(&raw) {
						// keep it light: at most the first 600 frames are candidates for windows
						m.frames.truncate(600);
						if m.frames.iter().all(|f| f.chars.iter().all(|c| c.as_ref().map_or(true, |c| !c.pre.is_empty() && !c.post.is_empty()))) {
							v.push((name, m));
						}
					}
				}
			}
		}
		v
	})
}

pub fn fixture_count() -> usize {
	fixture_bank().len()
}

/// A well-formed model built from a real fixture: real start block / metadata / gecko list, a window of its
/// frames renumbered from -123, with generated payload overwrites, absences and (>= 2.2) rollbacks.
pub fn fixture_model(dna: &[u8]) -> Option<(String, ModelGame)> {
	let bank = fixture_bank();
	if bank.is_empty() {
		return None;
	}
	let mut d = Dna::new(dna);
	let (name, base) = &bank[d.below(bank.len())];
	let v = base.v();
	let n = 1 + d.below(24.min(base.frames.len().max(1)));
	let a = d.below(base.frames.len().saturating_sub(n) + 1);
	let mut m = base.clone();
	m.frames = base.frames[a..(a + n).min(base.frames.len())].to_vec();
	let old = !spec::gte(v, (2, 2));
	let ns = m.slots().len();
	let mut id = spec::FIRST_FRAME;
	for (fi, f) in m.frames.iter_mut().enumerate() {
		if fi > 0 {
			if old {
				id += 1;
			} else {
				match d.u8() {
					0..=219 => id += 1,
					220..=245 => id = (id - d.below(5) as i32).max(spec::FIRST_FRAME),
					_ => id += 2,
				}
			}
		}
		f.id = id;
		// absences (keep the recorder's own absences too)
		if d.u8() >= 200 {
			let s = d.below(ns);
			if !(old && f.chars.iter().filter(|c| c.is_some()).count() <= 1) {
				f.chars[s] = None;
			}
		}
		// overwrite some payloads with generated patterns
		if d.u8() >= 160 {
			let pat = crate::gen::Pattern::from_byte(d.u8());
			let seed = d.u32() as u64;
			for (s, c) in f.chars.iter_mut().enumerate() {
				if let Some(c) = c {
					c.pre = crate::gen::payload(spec::Kind::Pre, v, seed ^ (s as u64 * 2 + 1), pat, 0);
					c.post = crate::gen::payload(spec::Kind::Post, v, seed ^ (s as u64 * 2 + 2), pat, 0);
				}
			}
			for (k, it) in f.items.iter_mut().enumerate() {
				*it = crate::gen::payload(spec::Kind::Item, v, seed ^ (0x100 + k as u64), pat, 0);
			}
		}
	}
	match d.u8() {
		0..=179 => {}
		180..=219 => m.end = EndSpec::None,
		_ => {
			if let Some(b) = m.end.bytes().cloned() {
				m.end = EndSpec::Two(b);
			}
		}
	}
	if d.u8() >= 230 {
		m.metadata = None;
	}
	Some((name.clone(), m))
}

/// gen_model, or (for a share of the stream values, when fixtures are available) a fixture-derived model.
/// `finished` forces a Game End; `allow_fixture` is false where the caller needs generator-only features.
pub fn gen_model_mixed(d: &mut Dna, cfg: &GenCfg, allow_fixture: bool) -> ModelGame {
	let sel = d.u8();
	if allow_fixture && sel >= 215 && fixture_count() > 0 && !cfg.newer {
		let rest: Vec<u8> = (0..160).map(|_| d.u8()).collect();
		if let Some((_, mut m)) = fixture_model(&rest) {
			if cfg.finished && m.end == EndSpec::None {
				m.end = EndSpec::One(crate::gen::gen_end_bytes(d, spec::end_size(m.v())));
			}
			return m;
		}
	}
	crate::gen::gen_model(d, cfg)
}

/// The model's file with `pad` bytes of filler between the last frame and the Game End (or the end
/// of the raw element): unknown events declared in the payload table, 65 535-byte payloads plus one
/// smaller one. Every known field is as in `m.encode()`; only the distance between Game Start and
/// Game End grows (cheaply) past buffer-size boundaries.
pub fn encode_padded(m: &ModelGame, pad: usize) -> Vec<u8> {
	if pad < 2 {
		return m.encode();
	}
	let mut raw = m.raw();
	let mut free = (0x40u8..=0xF0).filter(|c| !spec::KNOWN_CODES.contains(c) && !raw.table.iter().any(|(k, _)| k == c));
	let (big, small) = (free.next().unwrap(), free.next().unwrap());
	let nbig = pad / 65536;
	let rem = pad % 65536;
	let at = raw.events.iter().position(|e| e.code == spec::EV_GAME_END).unwrap_or(raw.events.len());
	let mut filler = Vec::new();
	if nbig > 0 {
		raw.table.push((big, 65535));
		for k in 0..nbig {
			let mut p = vec![0u8; 65535];
			crate::gen::SplitMix(k as u64 + 1).fill(&mut p);
			filler.push(crate::model::Ev::new(big, p, crate::model::Where::Other));
		}
	}
	if rem >= 2 {
		raw.table.push((small, (rem - 1) as u16));
		let mut p = vec![0u8; rem - 1];
		crate::gen::SplitMix(pad as u64).fill(&mut p);
		filler.push(crate::model::Ev::new(small, p, crate::model::Where::Other));
	}
	raw.events.splice(at..at, filler);
	raw.serialize()
}

/// Large games that cross 16-bit / 15-bit counters: many items, many frame rows, a big gecko list.
pub const LARGE_CASES: usize = 5;
pub fn large_model(i: usize) -> ModelGame {
	use crate::gen::{payload, simple_model, Pattern};
	use crate::model::{CharData, FrameOcc, Gecko};
	use crate::spec::Kind;
	match i % LARGE_CASES {
		0 => {
			// 290 rows x 260 items = 75 400 item events (> 2^16 in total, > 2^8 per frame)
			let v = (3, 16);
			let mut m = simple_model((3, 16, 0), &[(1, false)], 0, 11, Pattern::Random, 1, true);
			for fi in 0..290usize {
				m.frames.push(FrameOcc {
					id: spec::FIRST_FRAME + fi as i32,
					start: Some(payload(Kind::FrameStart, v, fi as u64, Pattern::Random, 0)),
					chars: vec![Some(CharData { pre: payload(Kind::Pre, v, fi as u64 + 1, Pattern::Random, 0), post: payload(Kind::Post, v, fi as u64 + 2, Pattern::Random, 0) })],
					items: (0..260).map(|k| payload(Kind::Item, v, (fi * 1000 + k) as u64, Pattern::Random, 0)).collect(),
					end: Some(payload(Kind::FrameEnd, v, fi as u64 + 3, Pattern::Random, 0)),
				});
			}
			m
		}
		1 => {
			// 70 000 frame rows (> 2^16), Frame Start but no Frame End (2.2), one character absent now and then
			let v = (2, 2);
			let mut m = simple_model((2, 2, 0), &[(0, false), (3, false)], 0, 12, Pattern::Random, 1, false);
			for fi in 0..70_000usize {
				m.frames.push(FrameOcc {
					id: spec::FIRST_FRAME + fi as i32,
					start: Some(payload(Kind::FrameStart, v, fi as u64 + 5, Pattern::Random, 0)),
					chars: vec![
						Some(CharData { pre: payload(Kind::Pre, v, fi as u64, Pattern::Random, 0), post: payload(Kind::Post, v, fi as u64 + 7, Pattern::Random, 0) }),
						(fi % 1000 != 999).then(|| CharData { pre: payload(Kind::Pre, v, fi as u64 + 9, Pattern::Random, 0), post: payload(Kind::Post, v, fi as u64 + 11, Pattern::Random, 0) }),
					],
					items: vec![],
					end: None,
				});
			}
			m
		}
		3 => {
			// 66 000 frame rows (> 2^16) in the 3.0-3.6 regime (Frame End without fields), Ice Climbers with Nana absent now and then
			let v = (3, 5);
			let mut m = simple_model((3, 5, 0), &[(2, true)], 0, 14, Pattern::Random, 1, true);
			for fi in 0..66_000usize {
				m.frames.push(FrameOcc {
					id: spec::FIRST_FRAME + fi as i32,
					start: Some(payload(Kind::FrameStart, v, fi as u64 + 5, Pattern::Random, 0)),
					chars: vec![
						Some(CharData { pre: payload(Kind::Pre, v, fi as u64, Pattern::Random, 0), post: payload(Kind::Post, v, fi as u64 + 7, Pattern::Random, 0) }),
						(fi % 777 != 776).then(|| CharData { pre: payload(Kind::Pre, v, fi as u64 + 9, Pattern::Random, 0), post: payload(Kind::Post, v, fi as u64 + 11, Pattern::Random, 0) }),
					],
					items: if fi % 5000 == 4999 { vec![payload(Kind::Item, v, fi as u64, Pattern::Random, 0)] } else { vec![] },
					end: Some(payload(Kind::FrameEnd, v, fi as u64 + 13, Pattern::Random, 0)),
				});
			}
			m
		}
		4 => {
			// one frame with 66 000 items (> 2^16 in a single frame), between two ordinary frames
			let v = (3, 0);
			let mut m = simple_model((3, 0, 0), &[(0, false)], 3, 15, Pattern::Random, 1, true);
			m.frames[1].items = (0..66_000u64).map(|k| payload(Kind::Item, v, k + 3, Pattern::Random, 0)).collect();
			m
		}
		_ => {
			// gecko list of 400 blocks = 204 700 bytes: the 16-bit table entry wraps three times
			let mut m = simple_model((3, 9, 0), &[(0, true)], 2, 13, Pattern::Random, 2, true);
			let mut bytes = vec![0u8; 400 * 512];
			crate::gen::SplitMix(99).fill(&mut bytes);
			m.gecko = Some(Gecko { bytes, actual: 400 * 512 - 100 });
			m
		}
	}
}
