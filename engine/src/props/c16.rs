//! C16 — metadata trees are read, written and stored with order and bytes preserved.

use serde_json::{json, Value};

use super::*;
use crate::cmp::meta_eq_json;
use crate::gen::{gen_meta_map, simple_model, Pattern};
use crate::model::Meta;
use crate::rt::{self, run_dna, run_enum, Comp};
use crate::tarfmt::{entry_data, meta_eq_j, parse_json, walk_tar, J};

fn count_maps(m: &[(String, Meta)]) -> usize {
	1 + m.iter().map(|(_, v)| if let Meta::Map(mm) = v { count_maps(mm) } else { 0 }).sum::<usize>()
}

fn tree_features(m: &[(String, Meta)]) -> (bool, bool, bool, usize) {
	let mut nested = false;
	let mut negative = false;
	let mut nonascii = false;
	let mut depth = 1;
	for (k, v) in m {
		if !k.is_ascii() {
			nonascii = true;
		}
		match v {
			Meta::Str(s) => nonascii |= !s.is_ascii(),
			Meta::Int(i) => negative |= *i < 0,
			Meta::Map(mm) => {
				nested = true;
				let (a, b, c, d) = tree_features(mm);
				nested |= a;
				negative |= b;
				nonascii |= c;
				depth = depth.max(d + 1);
			}
		}
	}
	(nested, negative, nonascii, depth)
}

fn check(ctx: &Ctx, meta: &Option<Vec<(String, Meta)>>, comp: Comp, label: &str, counting: bool) -> Result<(), Fail> {
	// the replay around the metadata varies too (version regime, Game End single / absent / doubled, frames or none):
	// where the metadata element starts depends on how the raw element ends
	let variant = meta.as_ref().map_or(0, |t| t.len() + t.first().map_or(0, |(k, _)| k.len())) + comp as usize;
	let ver = [(3, 9, 0), (0, 1, 0), (2, 2, 0), (3, 16, 0)][variant % 4];
	let mut m = simple_model(ver, &[(0, false), (1, false)], (variant / 4) % 2, 1, Pattern::Zero, ((variant / 8) % 3) as u8, false);
	m.metadata = meta.clone();
	let bytes = m.encode();
	super::sibling_history(&m, &bytes);
	if counting {
		ctx.eval();
		ctx.class(label);
		ctx.class(match m.end {
			crate::model::EndSpec::None => "replay_without_game_end",
			crate::model::EndSpec::One(_) => "replay_with_single_end",
			crate::model::EndSpec::Two(_) => "replay_with_doubled_end",
		});
		match meta {
			None => ctx.class("no_metadata"),
			Some(t) => {
				let (nested, neg, na, depth) = tree_features(t);
				ctx.class(&format!("depth={}", if depth >= 20 { ">=20".to_string() } else { depth.to_string() }));
				if t.is_empty() {
					ctx.class("empty_map");
				}
				let maps = count_maps(t);
				ctx.class(if maps >= 128 { "maps>=128" } else if maps >= 20 { "maps>=20" } else { "maps<20" });
				if nested {
					ctx.class("nested_map");
				}
				if neg {
					ctx.class("negative_int");
				}
				if na {
					ctx.class("non_ascii");
				}
				if nested || neg || na {
					ctx.nontrivial(rt::hash_bytes(&bytes));
				}
			}
		}
		ctx.sample_k(label, 4, || json!({"metadata": meta.as_ref().map(|t| crate::cmp::trunc(&format!("{:?}", t))), "compression": comp.name()}));
	}
	let detail = json!({"metadata": meta.as_ref().map(|t| crate::cmp::trunc(&format!("{:?}", t)))});
	let fail = |sig: &str, msg: String| Fail::new(format!("op=metadata {}", sig), msg).with_file("slp", &bytes).with_detail(detail.clone());
	// beyond the 127-level format limit the reader may refuse; but whatever it accepts must satisfy
	// the whole property (an accepted tree that cannot survive .slpp is a violation)
	let over_limit = meta.as_ref().map_or(false, |t| tree_features(t).3 > 127);
	let g = match rt::slp_read_default(&bytes) {
		rt::Out::Err(_) if over_limit => {
			if counting {
				ctx.class("over_limit_depth_rejected");
			}
			return Ok(());
		}
		o => o.expect_ok("slippi::read").map_err(|f| f.with_file("slp", &bytes).with_detail(detail.clone()))?,
	};
	if over_limit && counting {
		ctx.class("over_limit_depth_accepted");
	}
	match (meta, &g.metadata) {
		(None, None) => {}
		(Some(t), Some(got)) => meta_eq_json(t, got).map_err(|e| fail("read", format!("read tree differs: {}", e)))?,
		(a, b) => return Err(fail("presence", format!("metadata presence: file {} game {}", a.is_some(), b.is_some()))),
	}
	let w = rt::slp_write(&g).expect_ok("slippi::write").map_err(|f| f.with_file("slp", &bytes).with_detail(detail.clone()))?;
	if w != bytes {
		let i = (0..w.len().min(bytes.len())).find(|&i| w[i] != bytes[i]).unwrap_or(w.len().min(bytes.len()));
		return Err(fail("write", format!("written file differs at offset {} (metadata starts at {})", i, bytes.len() - m.raw().metadata.map_or(1, |x| x.len() + 12))));
	}
	let p = rt::slpp_write(g, comp).expect_ok("peppi::write").map_err(|f| f.with_file("slp", &bytes).with_detail(detail.clone()))?;
	let (entries, _) = walk_tar(&p).map_err(|e| fail("tar", e))?;
	let me = entries.iter().find(|e| e.name == "metadata.json").ok_or_else(|| fail("tar", "no metadata.json".into()))?;
	let j = parse_json(entry_data(&p, me)).map_err(|e| fail("json", format!("metadata.json does not parse: {}", e)))?;
	match (meta, &j) {
		(None, J::Null) => {}
		(Some(t), j) => meta_eq_j(t, j).map_err(|e| fail("slpp_json", format!("metadata.json tree/order differs: {}", e)).with_file("slpp", &p))?,
		(None, j) => return Err(fail("slpp_json", format!("metadata.json for a game without metadata is {:?}", j))),
	}
	let g2 = rt::slpp_read(&p, false).expect_ok("peppi::read").map_err(|f| f.with_file("slp", &bytes).with_file("slpp", &p).with_detail(detail.clone()))?;
	match (meta, &g2.metadata) {
		(None, None) => {}
		(Some(t), Some(got)) => meta_eq_json(t, got).map_err(|e| fail("slpp_read", format!("tree read back from .slpp differs: {}", e)))?,
		(a, b) => return Err(fail("slpp_presence", format!("metadata presence after .slpp: file {} game {}", a.is_some(), b.is_some()))),
	}
	let w2 = rt::slp_write(&g2).expect_ok("slippi::write(after .slpp)").map_err(|f| f.with_file("slp", &bytes))?;
	if w2 != bytes {
		return Err(fail("slpp_write", ".slp written after the .slpp trip differs".into()));
	}
	Ok(())
}

fn gen_tree(dna: &[u8], depth: usize) -> (Option<Vec<(String, Meta)>>, Comp) {
	let mut d = Dna::new(dna);
	let sel = d.u8();
	let comp = Comp::ALL[(sel % 3) as usize];
	let t = match sel {
		0..=9 => None,
		10..=19 => Some(vec![]),
		20..=39 => {
			// real recorder shape
			let mut players = Vec::new();
			for p in 0..(1 + d.below(4)) {
				players.push((
					format!("{}", p),
					Meta::Map(vec![
						("characters".into(), Meta::Map(vec![(format!("{}", d.below(26)), Meta::Int(d.u16() as i32))])),
						("names".into(), Meta::Map(vec![("netplay".into(), Meta::Str(crate::gen::gen_string(&mut d, 30))), ("code".into(), Meta::Str("ABC#123".into()))])),
					]),
				));
			}
			Some(vec![
				("startAt".into(), Meta::Str("2023-01-01T00:00:00Z".into())),
				("lastFrame".into(), Meta::Int(d.u16() as i32 - 123)),
				("players".into(), Meta::Map(players)),
				("playedOn".into(), Meta::Str("dolphin".into())),
			])
		}
		230..=235 => Some(crate::gen::bulky_metadata([20usize, 40, 150, 300][d.below(4)] + d.below(8), d.u8() as u64)),
		236..=249 => {
			// wide / bushy trees: many sibling maps at small depth (format limits bound depth and string
			// length, not the number of maps)
			let n = match d.u8() {
				0..=99 => 20 + d.below(120),
				100..=199 => 120 + d.below(60),
				_ => 130 + d.below(300),
			};
			let mut m = Vec::with_capacity(n);
			for i in 0..n {
				let v = match d.u8() {
					0..=109 => Meta::Map(vec![]),
					110..=179 => Meta::Map(vec![("characters".into(), Meta::Map(vec![(format!("{}", i % 26), Meta::Int(i as i32 * 7 - 300))])), ("names".into(), Meta::Map(vec![]))]),
					180..=219 => Meta::Int(d.u16() as i32 - 20000),
					_ => Meta::Str(crate::gen::gen_string(&mut d, 20)),
				};
				m.push((format!("{}", i), v));
			}
			Some(m)
		}
		250..=255 => {
			// chains up to and slightly beyond the 127-level limit (beyond: accepted => must still hold)
			let depth = 1 + d.below(131);
			let mut m = vec![("leaf".to_string(), Meta::Int(-(d.u16() as i32)))];
			for i in 0..depth {
				m = vec![(format!("n{}", i % 7), Meta::Map(m))];
			}
			Some(m)
		}
		_ => Some(gen_meta_map(&mut d, depth, 8)),
	};
	(t, comp)
}

const FIXED: usize = 23;
fn fixed(i: usize) -> Option<Vec<(String, Meta)>> {
	let s = |x: &str| Meta::Str(x.to_string());
	match i {
		0 => None,
		1 => Some(vec![]),
		2 => Some(vec![("z".into(), Meta::Int(1)), ("a".into(), Meta::Int(2)), ("m".into(), Meta::Int(3))]),
		3 => Some(vec![("i".into(), Meta::Int(i32::MIN)), ("j".into(), Meta::Int(i32::MAX)), ("k".into(), Meta::Int(-1)), ("l".into(), Meta::Int(0))]),
		4 => Some(vec![("".into(), s("")), ("k".repeat(255), s(&"v".repeat(255)))]),
		5 => Some(vec![("日本語".into(), s("ポポ & ナナ")), ("emoji".into(), s("😀")), ("ctl".into(), s("a\u{0}b\"c\\d\n"))]),
		6 => Some(vec![("b".into(), Meta::Map(vec![("y".into(), Meta::Int(1)), ("x".into(), Meta::Map(vec![]))])), ("a".into(), Meta::Map(vec![]))]),
		7 => Some(vec![("10".into(), Meta::Int(1)), ("9".into(), Meta::Int(2)), ("1".into(), Meta::Int(3))]),
		8 => Some(vec![("é".repeat(127), s(&"ß".repeat(127)))]),
		10 => Some((0..300).map(|i| (format!("m{}", i), Meta::Map(vec![]))).collect()),
		16 => Some(crate::gen::bulky_metadata(40, 1)),
		17 => Some(crate::gen::bulky_metadata(300, 2)),
		// > 1 MiB of metadata (as UBJSON and as JSON)
		18 => Some(crate::gen::bulky_metadata(5200, 3)),
		// past 8 MiB and past 16 MiB (round 12: a "defensive" size cap on the .slpp side)
		21 => Some(crate::gen::bulky_metadata(24_000, 4)),
		22 => Some(crate::gen::bulky_metadata(50_000, 5)),
		19 => Some(vec![("$serde_json::private::RawValue".into(), s("[1,2]")), ("x".into(), Meta::Int(1))]),
		20 => Some(vec![("wrap".into(), Meta::Map(vec![("$serde_json::private::Number".into(), s("123"))]))]),
		11 => Some((0..6).map(|a| (format!("a{}", a), Meta::Map((0..6).map(|b| (format!("b{}", b), Meta::Map((0..6).map(|c| (format!("c{}", c), Meta::Map(vec![("v".into(), Meta::Int(a * 36 + b * 6 + c))]))).collect()))).collect()))).collect()),
		12 => Some((0..60).map(|p| (format!("{}", p), Meta::Map(vec![("characters".into(), Meta::Map(vec![("1".into(), Meta::Int(p))])), ("names".into(), Meta::Map(vec![("netplay".into(), s("x")), ("code".into(), s("A#1"))]))]))).collect()),
		13 | 14 | 15 => {
			let mut m = vec![("leaf".to_string(), Meta::Int(-7))];
			for k in 0..(114 + i) {
				m = vec![(format!("n{}", k % 3), Meta::Map(m))];
			}
			Some(m)
		}
		_ => {
			let mut m = vec![("leaf".to_string(), Meta::Int(-7))];
			for k in 0..126 {
				m = vec![(format!("n{}", k % 3), Meta::Map(m))];
			}
			Some(m)
		}
	}
}

pub fn case(ctx: &Ctx, kind: &str, params: &Value, counting: bool) -> Result<(), Fail> {
	match kind {
		"fixed" => {
			let i = params["i"].as_u64().unwrap_or(0) as usize;
			check(ctx, &fixed(i % FIXED), Comp::ALL[(i / FIXED) % 3], "fixed", counting)
		}
		_ => {
			let (t, c) = gen_tree(&dna_param(params), ctx.n(6, 12));
			check(ctx, &t, c, "dna", counting)
		}
	}
}

pub fn run(ctx: &Ctx) -> usize {
	ctx.set_rule("metadata trees from a recursive generator (maps of 0..8 entries with distinct keys incl. empty/non-ASCII/255-byte keys, strings of 0..255 bytes of arbitrary UTF-8 incl. NUL/quote/backslash/control characters and astral code points, int32 over the full range with edge set, maps nested to depth 12, chains to the 127-level limit, recorder-shaped trees, the empty map, no metadata) encoded by the engine's own UBJSON writer; oracle: game.metadata equals the tree with identical key order, slippi::write reproduces the bytes, metadata.json inside the .slpp (found with the engine's tar walker, read with the engine's order-preserving JSON reader) holds the same tree and order, peppi::read returns the same tree and the .slp written after the trip is identical; absent metadata is None on every path; non-trivial = nested map, negative integer or non-ASCII text; distinct by xxh3 of the file");
	ctx.assume("depth limit 127 = the deepest tree serde_json reads back from metadata.json; duplicate keys and non-int32 numbers are outside the format");
	let mut violations = 0;
	if run_enum(ctx, "fixed", FIXED * 3, |i| json!({ "i": i }), |i| check(ctx, &fixed(i % FIXED), Comp::ALL[(i / FIXED) % 3], "fixed", true)).is_some() {
		violations += 1;
	}
	let depth = ctx.n(6, 12);
	if run_dna(ctx, "dna", ctx.n(20_000, 1_000_000), ctx.n(3072, 8192), |dna, counting| {
		let (t, c) = gen_tree(dna, depth);
		check(ctx, &t, c, "dna", counting)
	})
	.is_some()
	{
		violations += 1;
	}
	violations
}
