//! C04 — frame rows, character presence and item grouping mirror the event history.

use serde_json::{json, Value};

use super::*;
use crate::access::validity_report;
use crate::cmp::game_matches_model;
use crate::gen::{payload, Pattern};
use crate::model::{CharData, FrameOcc};
use crate::rt::{self, run_dna, run_enum};
use crate::spec::Kind;

fn check(ctx: &Ctx, m: &ModelGame, label: &str, counting: bool) -> Result<(), Fail> {
	let bytes = m.encode();
	super::sibling_history(m, &bytes);
	if counting {
		ctx.eval();
		let f = classify(ctx, m);
		ctx.class(label);
		if f.frames >= 2 && (f.absent || f.rollback || f.items > 0) {
			ctx.nontrivial(rt::hash_bytes(&bytes));
		}
		ctx.sample_k(label, 3, || m.summary());
	}
	let g = rt::slp_read_default(&bytes).expect_ok("slippi::read").map_err(|f| f.with_file("slp", &bytes))?;
	let fail = |sig: &str, e: String| Fail::new(format!("op=history {}", sig), format!("v{}.{}: {}", m.version.0, m.version.1, e)).with_file("slp", &bytes).with_detail(m.summary());
	let rows = m.frames.len();
	if g.frames.len() != rows {
		return Err(fail("rows", format!("{} frame rows for {} frame occurrences", g.frames.len(), rows)));
	}
	game_matches_model(&g, m).map_err(|e| {
		let key: String = e.split(" row ").next().unwrap_or("").chars().take(60).collect();
		fail(&key, e)
	})?;
	for (name, len, _unset) in validity_report(&g.frames) {
		if len != rows {
			return Err(fail("validity_len", format!("{} has {} entries for {} rows", name, len, rows)));
		}
	}
	// the trait view agrees on the row count
	use peppi::game::Game as _;
	if g.len() != rows {
		return Err(fail("len", format!("Game::len() {} != {}", g.len(), rows)));
	}
	Ok(())
}

/// Structured presence/rollback shapes, enumerated: regime x port layout x shape.
const SHAPES: [&str; 9] = ["absent_first", "absent_last", "gone_and_back", "never", "leader_absent_follower_present", "alternating", "rollback_repeat", "rollback_deep", "empty_frame"];
const LAYOUTS: [&[(u8, bool)]; 6] = [&[(0, false)], &[(1, false), (3, false)], &[(0, true)], &[(0, false), (1, true), (2, false)], &[(0, true), (1, true), (2, true), (3, true)], &[(2, true), (3, false)]];
const VERS: [(u8, u8, u8); 8] = [(0, 1, 0), (1, 4, 2), (2, 1, 0), (2, 2, 0), (2, 255, 1), (3, 0, 0), (3, 6, 0), (3, 16, 0)];

fn shaped_model(i: usize) -> ModelGame {
	let shape = SHAPES[i % SHAPES.len()];
	let layout = LAYOUTS[(i / SHAPES.len()) % LAYOUTS.len()];
	let ver = VERS[(i / (SHAPES.len() * LAYOUTS.len())) % VERS.len()];
	let var = i / (SHAPES.len() * LAYOUTS.len() * VERS.len());
	let v = (ver.0, ver.1);
	let old = !spec::gte(v, (2, 2));
	let mut m = crate::gen::simple_model(ver, layout, 0, 9000 + i as u64, Pattern::Distinct, (var % 3) as u8, true);
	let ns = m.slots().len();
	let n = 6 + var % 3;
	let mut ids: Vec<i32> = (0..n as i32).map(|k| spec::FIRST_FRAME + k).collect();
	if !old {
		match shape {
			"rollback_repeat" => ids = vec![-123, -122, -122, -122, -121, -120, -120][..n.min(7)].to_vec(),
			"rollback_deep" => ids = vec![-123, -122, -121, -120, -123, -122, -121, -120][..n.min(8)].to_vec(),
			_ => {}
		}
	}
	let target = (var + i) % ns;
	for (fi, id) in ids.iter().enumerate() {
		let mut present = vec![true; ns];
		match shape {
			"absent_first" => present[target] = fi != 0,
			"absent_last" => present[target] = fi + 1 != ids.len(),
			"gone_and_back" => present[target] = !(fi == 2 || fi == 3),
			"never" => present[target] = ns == 1,
			"leader_absent_follower_present" => {
				if let Some(s) = m.slots().iter().position(|s| s.follower) {
					present[s - 1] = fi % 2 == 0;
				}
			}
			"alternating" => {
				for s in 0..ns {
					present[s] = (fi + s) % 2 == 0;
				}
			}
			"empty_frame" => {
				if fi == 2 && !old {
					present.iter_mut().for_each(|p| *p = false);
				}
			}
			_ => {}
		}
		if old && !present.iter().any(|p| *p) {
			present[0] = true;
		}
		let fseed = 31 * i as u64 + fi as u64 * 7919;
		m.frames.push(FrameOcc {
			id: *id,
			start: spec::gte(v, (2, 2)).then(|| payload(Kind::FrameStart, v, fseed, Pattern::Distinct, 0)),
			chars: (0..ns)
				.map(|s| {
					present[s].then(|| CharData {
						pre: payload(Kind::Pre, v, fseed ^ (s as u64 + 1), Pattern::Distinct, 0),
						post: payload(Kind::Post, v, fseed ^ (s as u64 + 101), Pattern::Distinct, 0),
					})
				})
				.collect(),
			items: if spec::gte(v, (3, 0)) {
				(0..((fi * 3 + var) % 5)).map(|k| payload(Kind::Item, v, fseed ^ (k as u64 + 1000), Pattern::Distinct, 0)).collect()
			} else {
				vec![]
			},
			end: spec::gte(v, (3, 0)).then(|| payload(Kind::FrameEnd, v, fseed ^ 0xEE, Pattern::Distinct, 0)),
		});
	}
	m
}

fn cfg(ctx: &Ctx) -> crate::gen::GenCfg {
	cfg_for(ctx)
}

pub fn case(ctx: &Ctx, kind: &str, params: &Value, counting: bool) -> Result<(), Fail> {
	match kind {
		"shaped" => check(ctx, &shaped_model(params["i"].as_u64().unwrap_or(0) as usize), "shaped", counting),
		"large" => check(ctx, &large_model(params["i"].as_u64().unwrap_or(0) as usize), "large_game", counting),
		"fixture" => match fixture_model(&dna_param(params)) {
			Some((_, m)) => check(ctx, &m, "fixture", counting),
			None => Ok(()),
		},
		_ => check(ctx, &model_from_dna(&dna_param(params), &cfg(ctx)), "dna", counting),
	}
}

pub fn file_case(bytes: &[u8]) -> Result<(), Fail> {
	super::c03::file_case(bytes)
}

pub fn run(ctx: &Ctx) -> usize {
	ctx.set_rule("event histories: enumerated shapes (absent in first/last frame, gone-and-back, never present, leader absent while follower present, alternating, repeated/deep rollbacks, frame without characters) x 6 port layouts x 8 versions across the three framing regimes, plus random histories; oracle = the history itself: rows == occurrences, id column == id sequence, validity bit == presence, each present character's every leaf == that occurrence's payload (so a value in the wrong row/port is a mismatch), item offsets == item counts with items in order, every column and nested validity bitmap has one entry per row; non-trivial = >=2 rows and an absence, rollback or item; distinct by xxh3 of the file");
	ctx.assume("values stored for absent characters are unspecified and not compared");
	let mut violations = 0;
	let n = SHAPES.len() * LAYOUTS.len() * VERS.len() * ctx.n(6, 60);
	if run_enum(ctx, "shaped", n, |i| json!({ "i": i }), |i| check(ctx, &shaped_model(i), "shaped", true)).is_some() {
		violations += 1;
	}
	let cfg = cfg(ctx);
	if run_dna(ctx, "dna", ctx.n(60_000, 3_000_000), dna_max(ctx), |dna, counting| check(ctx, &model_from_dna(dna, &cfg), "dna", counting)).is_some() {
		violations += 1;
	}
	if run_enum(ctx, "large", LARGE_CASES, |i| json!({ "i": i }), |i| check(ctx, &large_model(i), "large_game", true)).is_some() {
		violations += 1;
	}
	if fixture_count() > 0 {
		if run_dna(ctx, "fixture", ctx.n(4_000, 200_000), 512, |dna, counting| match fixture_model(dna) {
			Some((_, m)) => check(ctx, &m, "fixture", counting),
			None => Ok(()),
		})
		.is_some()
		{
			violations += 1;
		}
	}
	violations
}
