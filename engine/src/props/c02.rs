//! C02 — `.slp` -> `.slpp` -> `.slp` is lossless under every compression option.

use serde_json::{json, Value};

use super::*;
use crate::gen::{simple_model, Pattern};
use crate::model::{EndSpec, Gecko};
use crate::rt::{self, run_dna, run_enum, Comp};

pub fn trip(bytes: &[u8], comp: Comp, hash: bool) -> Result<(), Fail> {
	let g = rt::slp_read(bytes, false, hash).expect_ok("slippi::read")?;
	let hash0 = g.hash.clone();
	let quirk0 = g.quirks.map_or(false, |q| q.double_game_end);
	if hash {
		let want = format!("xxh3:{:016x}", xxhash_rust::xxh3::xxh3_64(bytes));
		if hash0.as_deref() != Some(want.as_str()) {
			return Err(Fail::new("op=hash value", format!("hash {:?}, expected {}", hash0, want)));
		}
	} else if hash0.is_some() {
		return Err(Fail::new("op=hash unrequested", format!("hash {:?} reported although not requested", hash0)));
	}
	let p = rt::slpp_write(g, comp).expect_ok("peppi::write")?;
	let g2 = rt::slpp_read(&p, false).expect_ok("peppi::read").map_err(|f| f.with_file("slpp", &p))?;
	if g2.hash != hash0 {
		return Err(Fail::new("op=slpp hash", format!("hash after .slpp: {:?}, before: {:?}", g2.hash, hash0)).with_file("slpp", &p));
	}
	let quirk2 = g2.quirks.map_or(false, |q| q.double_game_end);
	if quirk2 != quirk0 {
		return Err(Fail::new("op=slpp quirks", format!("double_game_end after .slpp: {}, before: {}", quirk2, quirk0)).with_file("slpp", &p));
	}
	let w = rt::slp_write(&g2).expect_ok("slippi::write(after .slpp)").map_err(|f| f.with_file("slpp", &p))?;
	// second generation: the game read from the archive writes to the identical archive (same compression)
	if p.len() % 3 == 0 {
		let p2 = rt::slpp_write(g2, comp).expect_ok("peppi::write(2nd generation)").map_err(|f| f.with_file("slpp", &p))?;
		let g3 = rt::slpp_read(&p2, false).expect_ok("peppi::read(2nd generation)").map_err(|f| f.with_file("slpp", &p2))?;
		if g3.hash != hash0 {
			return Err(Fail::new("op=slpp hash second_generation", format!("hash after two .slpp generations: {:?}, original: {:?}", g3.hash, hash0)).with_file("slpp", &p));
		}
		let w3 = rt::slp_write(&g3).expect_ok("slippi::write(after 2 .slpp generations)").map_err(|f| f.with_file("slpp", &p2))?;
		if w3 != bytes {
			return Err(Fail::new("op=slpp roundtrip diff second_generation", format!("slp->slpp->slpp->slp ({}) differs from the original", comp.name())).with_file("slpp", &p).with_file("slpp2", &p2));
		}
	}
	if w != bytes {
		let n = w.len().min(bytes.len());
		let i = (0..n).find(|&i| w[i] != bytes[i]).unwrap_or(n);
		return Err(Fail::new(
			"op=slpp roundtrip diff",
			format!("slp->slpp({})->slp differs at offset {} (lengths {} vs {})", comp.name(), i, bytes.len(), w.len()),
		)
		.with_file("slpp", &p)
		.with_file("written.slp", &w));
	}
	Ok(())
}

pub const FORCED: [&str; 9] = ["zero_frames", "no_metadata", "no_end", "no_gecko", "v3.0-3.6", "double_end", "4ports_2ics", "gecko", "metadata_depth_limit"];

fn forced_model(i: usize) -> (ModelGame, Comp, bool, &'static str) {
	let class = FORCED[i % FORCED.len()];
	let comp = Comp::ALL[(i / FORCED.len()) % 3];
	let hash = (i / (FORCED.len() * 3)) % 2 == 1;
	let var = i / (FORCED.len() * 6);
	let seed = 1000 + i as u64;
	let versions = [(3, 16, 0), (3, 7, 3), (2, 2, 0), (1, 0, 0), (0, 1, 0), (3, 3, 9), (2, 0, 1), (3, 12, 0)];
	let mut v = versions[var % versions.len()];
	if class == "v3.0-3.6" {
		v = (3, (var % 7) as u8, 1);
	}
	if class == "gecko" || class == "no_gecko" {
		v = [(3, 3, 0), (3, 16, 0), (3, 9, 1), (3, 5, 0)][var % 4];
	}
	let ports: Vec<(u8, bool)> = match class {
		"4ports_2ics" => vec![(0, true), (1, false), (2, true), (3, false)],
		_ => vec![(0, false), (1, var % 3 == 0)],
	};
	let mut m = simple_model(v, &ports, if class == "zero_frames" { 0 } else { 4 }, seed, Pattern::Random, 1, class != "no_metadata");
	match class {
		"no_end" => m.end = EndSpec::None,
		"double_end" => m.end = EndSpec::Two(m.end.bytes().unwrap().clone()),
		"metadata_depth_limit" => {
			// 127 levels (the limit) or 128/129 (beyond it: the reader may refuse, but what it accepts must survive)
			let wraps = 126 + var % 3;
			let mut t = vec![("leaf".to_string(), crate::model::Meta::Int(1))];
			for k in 0..wraps {
				t = vec![(format!("n{}", k % 5), crate::model::Meta::Map(t))];
			}
			m.metadata = Some(t);
		}
		"gecko" => {
			let mut b = vec![0u8; 1024];
			crate::gen::SplitMix(seed).fill(&mut b);
			let actual = [1024u32, 513, 1023, 600][var % 4];
			m.gecko = Some(Gecko { bytes: b, actual });
		}
		_ => {}
	}
	(m, comp, hash, class)
}

fn check(ctx: &Ctx, m: &ModelGame, comp: Comp, hash: bool, forced: Option<&str>, counting: bool) -> Result<(), Fail> {
	let bytes = m.encode();
	super::sibling_history(m, &bytes);
	if counting {
		ctx.eval();
		let f = classify(ctx, m);
		ctx.class(&format!("compression={}", comp.name()));
		ctx.class(if hash { "hash_requested" } else { "hash_not_requested" });
		if let Some(c) = forced {
			ctx.class(&format!("cell:{}:{}", c, comp.name()));
		}
		if spec::gte(m.v(), (3, 0)) && !spec::gte(m.v(), (3, 7)) {
			ctx.class("v3.0-3.6");
		}
		if nontrivial_game(&f) || forced.is_some() {
			let mut h = bytes.clone();
			h.push(comp as u8);
			h.push(hash as u8);
			ctx.nontrivial(rt::hash_bytes(&h));
		}
		ctx.sample_k(if forced.is_some() { "forced" } else { "dna" }, 4, || json!({"model": m.summary(), "compression": comp.name(), "hash": hash}));
	}
	let over_limit = m.metadata.as_ref().map_or(false, |t| crate::model::Meta::Map(t.clone()).depth() > 127);
	if over_limit && matches!(rt::slp_read_default(&bytes), rt::Out::Err(_)) {
		return Ok(());
	}
	trip(&bytes, comp, hash).map_err(|f| {
		let mut f = f.with_file("slp", &bytes).with_detail(json!({"model": m.summary(), "compression": comp.name(), "hash": hash}));
		f.sig = format!("{} v{}.{}", f.sig, m.version.0, m.version.1);
		f
	})
}

fn dna_case(dna: &[u8], cfg: &crate::gen::GenCfg) -> (ModelGame, Comp, bool) {
	let mut d = Dna::new(dna);
	let c = d.u8();
	let comp = match c % 8 {
		0..=3 => Comp::None,
		4..=6 => Comp::Lz4,
		_ => Comp::Zstd,
	};
	let hash = c & 0x80 != 0;
	(crate::gen::gen_model(&mut d, cfg), comp, hash)
}

pub fn forced_model_pub(i: usize) -> (ModelGame, Comp, bool, &'static str) {
	forced_model(i)
}

pub fn case(ctx: &Ctx, kind: &str, params: &Value, counting: bool) -> Result<(), Fail> {
	match kind {
		"forced" => {
			let (m, comp, hash, class) = forced_model(params["i"].as_u64().unwrap_or(0) as usize);
			check(ctx, &m, comp, hash, Some(class), counting)
		}
		"large" => {
			let i = params["i"].as_u64().unwrap_or(0) as usize;
			check(ctx, &large_model(i), Comp::ALL[i % 3], i % 2 == 0, None, counting)
		}
		"fixture" => {
			let dna = dna_param(params);
			match fixture_model(&dna) {
				Some((_, m)) => {
					let c = dna.first().copied().unwrap_or(0);
					check(ctx, &m, Comp::ALL[(c % 3) as usize], c & 0x80 != 0, None, counting)
				}
				None => Ok(()),
			}
		}
		"chain" => chain_case(ctx, &dna_param(params), counting),
		_ => {
			let (m, comp, hash) = dna_case(&dna_param(params), &cfg(ctx));
			check(ctx, &m, comp, hash, None, counting)
		}
	}
}

/// A generated sequence of lossless format hops (.slp / .slpp with any compression / Arrow) over one
/// game: after every hop it must still serialise to the original file (see chain.rs).
fn chain_case(ctx: &Ctx, dna: &[u8], counting: bool) -> Result<(), Fail> {
	let mut d = Dna::new(dna);
	let ops = super::chain::gen_ops(&mut d, false, 6);
	let mut c = cfg(ctx);
	c.max_frames = c.max_frames.min(30);
	let m = super::gen_model_mixed(&mut d, &c, true);
	let bytes = m.encode();
	if counting {
		ctx.eval();
		ctx.class("chain");
		ctx.class(&format!("chain_len={}", ops.len()));
		for o in &ops {
			ctx.class(&format!("hop:{}", o.name()));
		}
		if m.frames.len() >= 1 {
			let mut h = bytes.clone();
			h.extend(ops.iter().flat_map(|o| o.name().into_bytes()));
			ctx.nontrivial(rt::hash_bytes(&h));
		}
		ctx.sample_k("chain", 4, || json!({"ops": ops.iter().map(|o| o.name()).collect::<Vec<_>>(), "model": m.summary()}));
	}
	super::chain::run_chain(&bytes, &ops, &m.summary())
}

pub fn file_case(bytes: &[u8]) -> Result<(), Fail> {
	for comp in Comp::ALL {
		trip(bytes, comp, true)?;
	}
	Ok(())
}

fn cfg(ctx: &Ctx) -> crate::gen::GenCfg {
	let mut c = cfg_for(ctx);
	if ctx.quick() {
		c.max_frames = 20;
	} else {
		c.max_frames = 200;
	}
	c
}

pub fn run(ctx: &Ctx) -> usize {
	ctx.set_rule("C01's model space x compression {none, LZ4, ZSTD} x {hash requested, not}; forced cells (zero frames, no metadata, no end, no gecko, versions 3.0-3.6, doubled end, 4 ports with 2 ICs, gecko) x every compression enumerated; oracle: slippi::write(peppi::read(peppi::write(slippi::read(b)))) == b byte for byte, hash and quirk flag equal before/after, hash == independent one-shot XXH3-64 of the file; non-trivial as C01 (or a forced cell); distinct by xxh3(file, compression, hash flag)");
	ctx.assume("arrow2's LZ4/ZSTD codecs are those peppi enables (io_ipc_compression)");
	let mut violations = 0;
	let n = FORCED.len() * 6 * ctx.n(12, 96);
	if run_enum(ctx, "forced", n, |i| json!({ "i": i }), |i| {
		let (m, comp, hash, class) = forced_model(i);
		check(ctx, &m, comp, hash, Some(class), true)
	})
	.is_some()
	{
		violations += 1;
	}
	let cfg = cfg(ctx);
	if run_dna(ctx, "dna", ctx.n(9_000, 300_000), dna_max(ctx), |dna, counting| {
		let (m, comp, hash) = dna_case(dna, &cfg);
		check(ctx, &m, comp, hash, None, counting)
	})
	.is_some()
	{
		violations += 1;
	}
	if violations == 0 {
		if run_enum(ctx, "large", LARGE_CASES, |i| json!({ "i": i }), |i| check(ctx, &large_model(i), Comp::ALL[i % 3], i % 2 == 0, None, true)).is_some() {
			violations += 1;
		}
	}
	if fixture_count() > 0 && violations == 0 {
		if run_dna(ctx, "fixture", ctx.n(1_500, 60_000), 512, |dna, counting| match fixture_model(dna) {
			Some((_, m)) => {
				let c = dna.first().copied().unwrap_or(0);
				check(ctx, &m, Comp::ALL[(c % 3) as usize], c & 0x80 != 0, None, counting)
			}
			None => Ok(()),
		})
		.is_some()
		{
			violations += 1;
		}
	}
	if violations == 0 && run_dna(ctx, "chain", ctx.n(4_000, 150_000), dna_max(ctx), |dna, counting| chain_case(ctx, dna, counting)).is_some() {
		violations += 1;
	}
	// generator-gap guard: every forced class x compression cell must have been exercised
	if violations == 0 {
		for c in FORCED {
			for comp in Comp::ALL {
				if ctx.class_count(&format!("cell:{}:{}", c, comp.name())) == 0 {
					eprintln!("generator gap: cell {}:{} empty", c, comp.name());
					std::process::exit(2);
				}
			}
		}
	}
	violations
}
