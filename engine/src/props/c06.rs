//! C06 — reading never panics, aborts or hangs, whatever bytes it is given.

use std::collections::BTreeSet;
use std::sync::Mutex;

use serde_json::{json, Value};

use super::*;
use crate::cmp::{diff_games, CmpOpts};
use crate::gen::{GenCfg, SplitMix};
use crate::model::{Ev, RawFile, Where};
use crate::readers::{SchedReader, Schedule};
use crate::rt::{self, run_dna, Out};
use crate::watch::{self, ChildResult};
use peppi::io::slippi::de;

pub const OPS: [&str; 24] = [
	"insert_event", "delete_event", "dup_event", "swap_events", "frame_id", "port_byte", "follower_flag", "illegal_event", "table_size", "table_zero",
	"table_dup", "table_drop", "table_sizebyte", "raw_len", "splitter_field", "meta_garbage", "meta_depth", "meta_retag", "resize_consistent", "truncate", "flip_bytes", "splice", "random_bytes", "no_players",
];

/// README's incremental loop; "ok" / "err" / "panic"
pub fn incremental_outcome(bytes: &[u8]) -> &'static str {
	let mut r = std::io::Cursor::new(bytes);
	let out = rt::guard(|| -> Result<(), String> {
		let size = de::parse_header(&mut r, None).map_err(|e| e.to_string())? as usize;
		let mut state = de::parse_start(&mut r, None).map_err(|e| e.to_string())?;
		let mut n = 0usize;
		while de::parse_event(&mut r, &mut state, None).map_err(|e| e.to_string())? != de::Event::GameEnd as u8 && state.bytes_read() < size {
			n += 1;
			if n % 7 == 0 {
				let _ = state.frames().len();
				let _ = state.frames().id.values().last().copied();
			}
		}
		let mut b = [0u8; 1];
		std::io::Read::read_exact(&mut r, &mut b).map_err(|e| e.to_string())?;
		if b[0] == 0x55 {
			de::parse_metadata(&mut r, &mut state, None).map_err(|e| e.to_string())?;
		}
		Ok(())
	});
	out.kind()
}

fn incremental_guarded(bytes: &[u8]) -> Out<()> {
	let mut r = std::io::Cursor::new(bytes);
	rt::guard(|| -> Result<(), String> {
		let size = de::parse_header(&mut r, None).map_err(|e| e.to_string())? as usize;
		let mut state = de::parse_start(&mut r, None).map_err(|e| e.to_string())?;
		let mut n = 0usize;
		while de::parse_event(&mut r, &mut state, None).map_err(|e| e.to_string())? != de::Event::GameEnd as u8 && state.bytes_read() < size {
			n += 1;
			if n % 7 == 0 {
				// observers that are total on any state (row views of incomplete rows are outside the contract)
				let _ = state.frames().len();
				let _ = state.frames().id.values().last().copied();
				let _ = state.bytes_read();
			}
		}
		let mut b = [0u8; 1];
		std::io::Read::read_exact(&mut r, &mut b).map_err(|e| e.to_string())?;
		if b[0] == 0x55 {
			de::parse_metadata(&mut r, &mut state, None).map_err(|e| e.to_string())?;
		}
		Ok(())
	})
}

/// A caller that keeps asking for events until the declared raw length is used up (so it also
/// consumes whatever follows the first Game End), over a reader that hands out short reads.
/// Returns (outcome, no-progress flag).
fn incremental_to_raw_len(bytes: &[u8]) -> (Out<()>, bool) {
	let mut r = SchedReader::new(bytes, Schedule::Fixed(1 + bytes.len() % 9));
	let out = rt::guard(|| -> Result<(), String> {
		let size = de::parse_header(&mut r, None).map_err(|e| e.to_string())? as usize;
		let mut state = de::parse_start(&mut r, None).map_err(|e| e.to_string())?;
		let mut calls = 0usize;
		while state.bytes_read() < size {
			let before = state.bytes_read();
			de::parse_event(&mut r, &mut state, None).map_err(|e| e.to_string())?;
			calls += 1;
			if state.bytes_read() <= before && calls > bytes.len() + 16 {
				return Err("no progress".into());
			}
			let _ = state.frames().len();
		}
		Ok(())
	});
	(out, r.over_budget)
}

struct Corrupted {
	bytes: Vec<u8>,
	ops: Vec<&'static str>,
	model: Value,
}

fn corrupt_structural(raw: &mut RawFile, m: &ModelGame, d: &mut Dna, op: &'static str) {
	let n = raw.events.len();
	match op {
		"insert_event" => {
			let src = d.below(n);
			let dst = 1 + d.below(n);
			let e = raw.events[src].clone();
			raw.events.insert(dst.min(raw.events.len()), e);
		}
		"delete_event" => {
			if n > 1 {
				let k = d.below(n);
				raw.events.remove(k);
			}
		}
		"dup_event" => {
			let k = d.below(n);
			let e = raw.events[k].clone();
			raw.events.insert(k, e);
		}
		"swap_events" => {
			if n > 2 {
				let a = d.below(n);
				let b = d.below(n);
				raw.events.swap(a, b);
			}
		}
		"frame_id" => {
			let cands: Vec<usize> = (0..n).filter(|&k| matches!(raw.events[k].at, Where::Frame(_)) && raw.events[k].payload.len() >= 4).collect();
			if !cands.is_empty() {
				let k = cands[d.below(cands.len())];
				let id = match d.u8() {
					0..=79 => i32::from_be_bytes(raw.events[k].payload[..4].try_into().unwrap()).wrapping_add(1),
					80..=139 => i32::from_be_bytes(raw.events[k].payload[..4].try_into().unwrap()).wrapping_sub(1 + d.below(5) as i32),
					140..=169 => i32::MAX,
					170..=199 => i32::MIN,
					200..=219 => -124,
					_ => d.u32() as i32,
				};
				raw.events[k].payload[..4].copy_from_slice(&id.to_be_bytes());
			}
		}
		"port_byte" | "follower_flag" => {
			let cands: Vec<usize> = (0..n).filter(|&k| (raw.events[k].code == spec::EV_PRE || raw.events[k].code == spec::EV_POST) && raw.events[k].payload.len() >= 6).collect();
			if !cands.is_empty() {
				let k = cands[d.below(cands.len())];
				if op == "port_byte" {
					raw.events[k].payload[4] = match d.u8() {
						0..=99 => 4,
						100..=149 => 255,
						150..=199 => raw.events[k].payload[4].wrapping_add(1) % 4, // in range, possibly unoccupied
						_ => d.u8(),
					};
				} else {
					raw.events[k].payload[5] = if raw.events[k].payload[5] == 0 { 1 + d.u8() % 255 } else { 0 };
				}
			}
		}
		"illegal_event" => {
			let code = [spec::EV_FRAME_START, spec::EV_ITEM, spec::EV_FRAME_END, spec::EV_GECKO, spec::EV_SPLITTER, spec::EV_PAYLOADS, spec::EV_GAME_START][d.below(7)];
			let in_table = raw.table.iter().any(|(c, _)| *c == code);
			let size = if in_table { raw.table.iter().find(|(c, _)| *c == code).unwrap().1 as usize } else { [4usize, 8, 12, 44, 516][d.below(5)] };
			if !in_table && d.u8() >= 64 {
				raw.table.push((code, size as u16));
			}
			let mut p = vec![0u8; size];
			SplitMix(d.u32() as u64).fill(&mut p);
			if size >= 4 {
				// plausible frame id so the event reaches deeper code
				let id = m.frames.get(d.below(m.frames.len().max(1))).map_or(spec::FIRST_FRAME, |f| f.id);
				p[..4].copy_from_slice(&id.to_be_bytes());
			}
			let pos = 1 + d.below(n);
			raw.events.insert(pos.min(raw.events.len()), Ev::new(code, p, Where::Other));
		}
		"table_size" => {
			let k = d.below(raw.table.len());
			raw.table[k].1 = match d.u8() {
				0..=79 => raw.table[k].1.saturating_sub(1 + d.below(8) as u16).max(1),
				80..=139 => raw.table[k].1.saturating_add(1 + d.below(8) as u16),
				140..=179 => 1 + d.below(6) as u16,
				180..=219 => 65535,
				_ => d.u16().max(1),
			};
		}
		"resize_consistent" => {
			// an event type whose declared size and every payload are shorter (or longer) than the
			// version prescribes: the file stays self-consistent, only the version claim is off
			let k = d.below(raw.table.len());
			let (code, size) = raw.table[k];
			let new = match d.u8() {
				0..=99 => size.saturating_sub(1 + d.below(size.max(1) as usize) as u16).max(1),
				100..=159 => 1 + d.below(6) as u16,
				160..=199 => size / 2 + 1,
				_ => size.saturating_add(1 + d.below(8) as u16),
			};
			raw.table[k].1 = new;
			for e in raw.events.iter_mut().filter(|e| e.code == code) {
				e.payload.resize(new as usize, 0);
			}
		}
		"table_zero" => {
			let k = d.below(raw.table.len());
			raw.table[k].1 = 0;
		}
		"table_dup" => {
			let k = d.below(raw.table.len());
			let mut e = raw.table[k];
			if d.u8() >= 128 {
				e.1 = e.1.wrapping_add(d.u8() as u16).max(1);
			}
			raw.table.push(e);
		}
		"table_drop" => {
			let k = match d.u8() {
				0..=99 => raw.table.iter().position(|(c, _)| *c == spec::EV_GAME_START),
				100..=199 => raw.table.iter().position(|(c, _)| *c == spec::EV_GAME_END),
				_ => Some(d.below(raw.table.len())),
			};
			if let Some(k) = k {
				raw.table.remove(k);
			}
		}
		"raw_len" => {
			let body = raw.raw_body().len() as u32;
			let consumed_after_start = (2 + 3 * raw.table.len() + 1 + raw.events[0].payload.len()) as u32;
			raw.raw_len = Some(match d.u8() {
				0..=39 => 0,
				40..=69 => 1,
				70..=109 => consumed_after_start.wrapping_add(d.below(9) as u32).wrapping_sub(4),
				110..=159 => body.wrapping_add(d.below(17) as u32).wrapping_sub(8),
				160..=179 => u32::MAX,
				180..=199 => body / 2,
				200..=219 => body.wrapping_add(1 + d.below(300) as u32),
				_ => d.u32(),
			});
		}
		"splitter_field" => {
			let cands: Vec<usize> = (0..n).filter(|&k| raw.events[k].code == spec::EV_SPLITTER).collect();
			if cands.is_empty() {
				// add splitter blocks to a file that has none (table entry with the right or a wrong size)
				let sz: u16 = [516u16, 515, 517, 4, 1000][d.below(5)];
				if !raw.table.iter().any(|(c, _)| *c == spec::EV_SPLITTER) {
					raw.table.push((spec::EV_SPLITTER, sz));
				}
				if !raw.table.iter().any(|(c, _)| *c == spec::EV_GECKO) {
					raw.table.push((spec::EV_GECKO, 100));
				}
				let mut p = vec![0u8; sz as usize];
				if p.len() >= 516 {
					p[512..514].copy_from_slice(&(d.u16() % 700).to_be_bytes());
					p[514] = [spec::EV_GECKO, spec::EV_PRE, spec::EV_GAME_END, spec::EV_SPLITTER, 0x99][d.below(5)];
					p[515] = d.u8() & 1;
				}
				raw.events.insert(1, Ev::new(spec::EV_SPLITTER, p, Where::Gecko));
			} else {
				let k = cands[d.below(cands.len())];
				let p = &mut raw.events[k].payload;
				if p.len() >= 516 {
					match d.below(4) {
						0 => p[512..514].copy_from_slice(&[513u16, 600, 0xFFFF, 0][d.below(4)].to_be_bytes()),
						1 => p[514] = [spec::EV_PRE, spec::EV_POST, spec::EV_GAME_END, spec::EV_GAME_START, spec::EV_PAYLOADS, spec::EV_SPLITTER, spec::EV_ITEM, spec::EV_FRAME_START, spec::EV_FRAME_END, 0x77][d.below(10)],
						2 => p[515] ^= 1,
						_ => {
							// declared splitter payload != 516
							if let Some(t) = raw.table.iter_mut().find(|(c, _)| *c == spec::EV_SPLITTER) {
								t.1 = [515u16, 517, 512, 4][d.below(4)];
							}
						}
					}
				}
			}
		}
		"meta_garbage" => {
			let mut md = raw.metadata.clone().unwrap_or_else(|| b"U\x01aSU\x01b}".to_vec());
			match d.below(6) {
				0 => {
					let k = d.below(md.len().max(1));
					if !md.is_empty() {
						md[k] = d.u8();
					}
				}
				1 => md.truncate(d.below(md.len() + 1)),
				2 => md = b"U\x01aS\x00\x01b}".to_vec(), // string without the 'U' length marker
				3 => md = b"U\x01ai\x05}".to_vec(),       // unsupported value type
				4 => md = b"U\x02\xff\xfeSU\x00}".to_vec(), // invalid UTF-8 key
				_ => md = b"U\x01aSU\x05ab}".to_vec(),     // string longer than the data
			}
			raw.metadata = Some(md);
		}
		"meta_depth" => {
			let depth = [126usize, 127, 128, 200, 1000, 3000][d.below(6)];
			let mut md = Vec::new();
			for _ in 0..depth {
				md.extend_from_slice(b"U\x01n{");
			}
			md.extend_from_slice(b"U\x01xl\x00\x00\x00\x01");
			for _ in 0..depth {
				md.push(b'}');
			}
			md.push(b'}');
			raw.metadata = Some(md);
		}
		"meta_retag" => {
			// grammar-aware: give one metadata value another UBJSON type marker (every marker of the UBJSON
			// spec, not only the three peppi knows) and, often, an edge-case numeric payload
			let mut md = raw.metadata.clone().unwrap_or_else(|| b"U\x01al\xff\xff\xff\xffU\x01bSU\x01x}".to_vec());
			let vals = ubjson_values(&md);
			if !vals.is_empty() {
				let (tpos, ppos, plen) = vals[d.below(vals.len())];
				const MARKERS: [u8; 18] = [b'Z', b'N', b'T', b'F', b'i', b'U', b'I', b'l', b'L', b'd', b'D', b'H', b'C', b'S', b'[', b'{', b']', b'}'];
				md[tpos] = MARKERS[d.below(MARKERS.len())];
				if d.u8() >= 96 {
					const EDGES: [[u8; 8]; 6] = [[0xFF; 8], [0x7F, 0xF0, 0, 0, 0, 0, 0, 0], [0x7F, 0x80, 0, 0, 0x7F, 0x80, 0, 0], [0xFF, 0xF8, 0, 0, 0, 0, 0, 1], [0x80, 0, 0, 0, 0, 0, 0, 0], [0x7F, 0xFF, 0xFF, 0xFF, 0xFF, 0xFF, 0xFF, 0xFF]];
					let e = EDGES[d.below(EDGES.len())];
					// overwrite (and if the new type is wider, insert) payload bytes
					let want = match md[tpos] {
						b'L' | b'D' => 8,
						b'l' | b'd' => 4,
						b'I' => 2,
						b'i' | b'U' | b'C' => 1,
						_ => plen.min(8),
					};
					let end = (ppos + plen).min(md.len());
					md.splice(ppos..end.min(ppos + plen), e[..want].iter().copied());
				}
			}
			raw.metadata = Some(md);
		}
		"no_players" => {
			for i in 0..4 {
				if raw.events[0].payload.len() < 320 {
					break;
				}
				raw.events[0].payload[spec::gs::PLAYERS + i * spec::gs::PLAYER_LEN + spec::gs::P_TYPE] = 3;
			}
		}
		_ => {}
	}
}

/// (type byte position, payload position, payload length) of every value in a UBJSON map body of the
/// subset the recorder writes; stops quietly at anything it does not understand
fn ubjson_values(md: &[u8]) -> Vec<(usize, usize, usize)> {
	let mut out = Vec::new();
	let mut i = 0;
	let mut depth = 0usize;
	while i < md.len() {
		match md[i] {
			b'}' => {
				i += 1;
				if depth == 0 {
					break;
				}
				depth -= 1;
			}
			b'U' => {
				let Some(&kl) = md.get(i + 1) else { break };
				i += 2 + kl as usize;
				let Some(&t) = md.get(i) else { break };
				match t {
					b'S' => {
						let Some(&l) = md.get(i + 2) else { break };
						out.push((i, i + 1, 2 + l as usize));
						i += 3 + l as usize;
					}
					b'l' => {
						out.push((i, i + 1, 4));
						i += 5;
					}
					b'{' => {
						out.push((i, i + 1, 0));
						i += 1;
						depth += 1;
					}
					_ => break,
				}
			}
			_ => break,
		}
	}
	out
}

fn gen_corrupted(dna: &[u8], cfg: &GenCfg, other: &[u8]) -> Corrupted {
	let mut d = Dna::new(dna);
	let mdna: Vec<u8> = (0..20).map(|_| d.u8()).collect();
	let m = crate::gen::gen_model(&mut d, cfg);
	let mut md = Dna::new(&mdna);
	let mut raw = m.raw();
	let mut ops = Vec::new();
	let nstruct = match md.u8() {
		0..=29 => 0,
		30..=189 => 1,
		190..=239 => 2,
		_ => 3,
	};
	for _ in 0..nstruct {
		let op = OPS[md.below(19)]; // structural ones
		let op = if md.u8() == 255 { "no_players" } else { op };
		corrupt_structural(&mut raw, &m, &mut d, op);
		ops.push(op);
	}
	let mut bytes = raw.serialize();
	if ops.contains(&"table_sizebyte") {
		// the size byte of the payloads event: not == 1 (mod 3), or inconsistent with the table
		bytes[16] = match d.u8() {
			0..=99 => bytes[16].wrapping_add(1),
			100..=199 => bytes[16].wrapping_add(2),
			200..=229 => 0,
			_ => bytes[16].wrapping_add(3 * (1 + d.below(5) as u8)),
		};
	}
	let nbyte = if nstruct == 0 { 1 } else { (md.u8() >= 200) as usize };
	for _ in 0..nbyte {
		let op = ["truncate", "flip_bytes", "splice", "random_bytes"][match md.u8() {
			0..=69 => 0,
			70..=189 => 1,
			190..=229 => 2,
			_ => 3,
		}];
		match op {
			"truncate" => bytes.truncate(d.below(bytes.len() + 1)),
			"flip_bytes" => {
				let k = 1 + d.below(6);
				for _ in 0..k {
					let p = d.below(bytes.len().max(1));
					if !bytes.is_empty() {
						bytes[p] = match d.u8() {
							0..=99 => bytes[p] ^ (1 << d.below(8)),
							100..=159 => d.u8(),
							160..=199 => 0xFF,
							200..=229 => 0,
							_ => bytes[p].wrapping_add(1),
						};
					}
				}
			}
			"splice" => {
				let a = d.below(bytes.len() + 1);
				let b = d.below(other.len() + 1);
				bytes.truncate(a);
				bytes.extend_from_slice(&other[b..]);
			}
			_ => {
				let n = d.below(400);
				let keep = if d.u8() >= 100 { 15.min(bytes.len()) } else { 0 };
				bytes.truncate(keep);
				let mut junk = vec![0u8; n];
				SplitMix(d.u32() as u64).fill(&mut junk);
				bytes.extend_from_slice(&junk);
			}
		}
		ops.push(op);
	}
	Corrupted { bytes, ops, model: m.summary() }
}

fn norm_err(e: &str) -> String {
	let mut out = String::new();
	let mut last_digit = false;
	for c in e.chars().take(90) {
		if c.is_ascii_digit() {
			if !last_digit {
				out.push('#');
			}
			last_digit = true;
		} else {
			out.push(c);
			last_digit = false;
		}
	}
	out
}

struct Stats {
	errors: Mutex<BTreeSet<String>>,
}

fn battery(ctx: &Ctx, c: &Corrupted, stats: &Stats, counting: bool, deep_faults: bool) -> Result<(), Fail> {
	let bytes = &c.bytes;
	let budget = 16 * bytes.len() + 4096;
	let detail = json!({"ops": c.ops, "model": c.model, "len": bytes.len()});
	let mk = |sig: String, msg: String| Fail::new(sig, msg).with_file("slp", bytes).with_detail(detail.clone());
	let mut clean_kind = ["", "", "", ""];
	let mut clean_reads = [0usize; 4];
	for (oi, (skip, hash)) in [(false, false), (false, true), (true, false), (true, true)].into_iter().enumerate() {
		let mut r = SchedReader::new(bytes, Schedule::Full);
		let o = rt::slp_opts(skip, hash);
		let out = rt::guard(|| peppi::io::slippi::read(&mut r, Some(&o)));
		if r.over_budget || r.reads > budget {
			return Err(mk(format!("op=read no_progress skip={} hash={}", skip, hash), format!("{} read calls for a {}-byte input", r.reads, bytes.len())));
		}
		clean_kind[oi] = out.kind();
		clean_reads[oi] = r.reads;
		match out {
			Out::Panic(p) => return Err(mk(format!("op=read panic~{}", rt::panic_site(&p)), format!("slippi::read(skip_frames={}, compute_hash={}) panicked: {}", skip, hash, p))),
			Out::Err(e) => {
				if counting && oi == 0 {
					let mut s = stats.errors.lock().unwrap();
					if s.len() < 400 {
						s.insert(norm_err(&e));
					}
				}
			}
			Out::Ok(_) => {}
		}
	}
	// the third option: `debug` dumps every event's payload into a directory (one case in 32, small inputs)
	if bytes.len() <= 4096 && rt::hash_bytes(bytes) % 32 == 5 && rt::debug_budget_take() {
		let out = rt::with_debug_dir(|dir| {
			let mut worst: Option<(bool, bool, String)> = None;
			for (skip, hash) in [(false, false), (true, true)] {
				let o = de::Opts { skip_frames: skip, compute_hash: hash, debug: Some(de::Debug { dir: dir.to_path_buf() }) };
				let mut r = SchedReader::new(bytes, Schedule::Full);
				if let Out::Panic(p) = rt::guard(|| peppi::io::slippi::read(&mut r, Some(&o))) {
					worst = Some((skip, hash, p));
					break;
				}
			}
			if worst.is_none() {
				// incremental API with the same option
				let o = de::Opts { skip_frames: false, compute_hash: false, debug: Some(de::Debug { dir: dir.to_path_buf() }) };
				let mut r = SchedReader::new(bytes, Schedule::Full);
				let res = rt::guard(|| -> Result<(), String> {
					let size = de::parse_header(&mut r, Some(&o)).map_err(|e| e.to_string())? as usize;
					let mut state = de::parse_start(&mut r, Some(&o)).map_err(|e| e.to_string())?;
					while state.bytes_read() < size {
						if de::parse_event(&mut r, &mut state, Some(&o)).map_err(|e| e.to_string())? == de::Event::GameEnd as u8 {
							break;
						}
					}
					Ok(())
				});
				if let Out::Panic(p) = res {
					worst = Some((false, false, format!("(incremental) {}", p)));
				}
			}
			worst
		});
		if counting {
			ctx.class("read_with_debug_option");
		}
		if let Some((skip, hash, p)) = out {
			return Err(mk(format!("op=read panic debug~{}", rt::panic_site(&p)), format!("slippi::read(skip_frames={}, compute_hash={}, debug=Some(dir)) panicked: {}", skip, hash, p)));
		}
	}
	// incremental API over the same input
	if let Out::Panic(p) = incremental_guarded(bytes) {
		return Err(mk(format!("op=incremental panic~{}", rt::panic_site(&p)), format!("incremental API panicked: {}", p)));
	}
	match incremental_to_raw_len(bytes) {
		(Out::Panic(p), _) => return Err(mk(format!("op=incremental_past_end panic~{}", rt::panic_site(&p)), format!("incremental API (events requested until the raw length is used up) panicked: {}", p))),
		(Out::Err(e), stuck) if stuck || e == "no progress" => return Err(mk("op=incremental_past_end no_progress".into(), "parse_event keeps returning without consuming input".into())),
		_ => {}
	}
	if counting {
		ctx.eval();
		for op in &c.ops {
			ctx.class(&format!("op:{}:{}", op, clean_kind[0]));
		}
		// reaches the event loop?
		let reached = {
			let mut cur = std::io::Cursor::new(&bytes[..]);
			matches!(rt::guard(|| de::parse_header(&mut cur, None).and_then(|_| de::parse_start(&mut cur, None))), Out::Ok(_))
		};
		if reached {
			ctx.class("reaches_event_loop");
			ctx.nontrivial(rt::hash_bytes(bytes));
		} else {
			ctx.class("rejected_before_event_loop");
		}
		ctx.sample_k(if reached { "reached" } else { "rejected_early" }, 4, || json!({"ops": c.ops, "model": c.model, "len": bytes.len(), "result": clean_kind}));
	}
	// fault injection: a hard error at the k-th read/seek must surface as Err; Interrupted must be transparent
	let oi = (bytes.len() + c.ops.len()) % 4;
	let (skip, hash) = [(false, false), (false, true), (true, false), (true, true)][oi];
	let o = rt::slp_opts(skip, hash);
	let nreads = clean_reads[oi];
	let ks: Vec<usize> = if deep_faults && nreads <= 400 { (0..nreads).collect() } else { vec![nreads / 2, nreads.saturating_sub(1), (bytes.len() * 7 + 3) % nreads.max(1)] };
	for k in ks {
		let mut r = SchedReader::new(bytes, Schedule::Full);
		r.fail_read_at = Some(k);
		let out = rt::guard(|| peppi::io::slippi::read(&mut r, Some(&o)));
		if counting {
			ctx.add("fault_points_injected", 1);
		}
		match out {
			Out::Panic(p) => return Err(mk(format!("op=fault panic~{}", rt::panic_site(&p)), format!("read fault at call {}: {}", k, p))),
			Out::Ok(_) if r.faults_fired > 0 => return Err(mk(format!("op=fault swallowed skip={} hash={}", skip, hash), format!("an I/O error injected at read call {} of {} was swallowed: the reader returned a game", k, nreads))),
			_ => {}
		}
	}
	if skip && !hash {
		let mut r = SchedReader::new(bytes, Schedule::Full);
		r.fail_seek_at = Some(0);
		let out = rt::guard(|| peppi::io::slippi::read(&mut r, Some(&o)));
		match out {
			Out::Panic(p) => return Err(mk(format!("op=fault panic~{}", rt::panic_site(&p)), format!("seek fault: {}", p))),
			Out::Ok(_) if r.faults_fired > 0 => return Err(mk("op=fault seek swallowed".into(), "an injected seek error was swallowed".into())),
			_ => {}
		}
	}
	{
		let mut r = SchedReader::new(bytes, Schedule::Fixed(5));
		r.interrupts = 1 + bytes.len() % 3;
		r.interrupt_calls = 64;
		let out = rt::guard(|| peppi::io::slippi::read(&mut r, Some(&o)));
		if counting {
			ctx.add("interrupted_runs", 1);
		}
		match (&out, clean_kind[oi]) {
			(Out::Panic(p), _) => return Err(mk(format!("op=eintr panic~{}", rt::panic_site(p)), p.clone())),
			// EINTR may be retried (std's convention) or surfaced as an error — both satisfy the property;
			// what must not happen is a game where the clean run fails, or a different game (checked below)
			(Out::Ok(_), "ok") | (Out::Err(_), _) => {}
			(o2, k) => return Err(mk(format!("op=eintr differs skip={} hash={}", skip, hash), format!("with injected EINTR + short reads the result is {} but the clean run gave {}", o2.kind(), k))),
		}
		if let (Out::Ok(g), "ok") = (&out, clean_kind[oi]) {
			let mut r2 = SchedReader::new(bytes, Schedule::Full);
			if let Out::Ok(g0) = rt::guard(|| peppi::io::slippi::read(&mut r2, Some(&o))) {
				diff_games(g, &g0, &CmpOpts::default()).map_err(|e| mk("op=eintr game differs".into(), e))?;
			}
		}
	}
	Ok(())
}

fn deep_probe(depth: usize) -> Vec<u8> {
	let m = crate::gen::simple_model((3, 16, 0), &[(0, false), (1, false)], 1, 1, crate::gen::Pattern::Zero, 1, false);
	let mut raw = m.raw();
	let mut md = Vec::with_capacity(depth * 5 + 16);
	for _ in 0..depth {
		md.extend_from_slice(b"U\x01n{");
	}
	md.extend_from_slice(b"U\x01xl\x00\x00\x00\x01");
	for _ in 0..depth {
		md.push(b'}');
	}
	md.push(b'}');
	raw.metadata = Some(md);
	raw.serialize()
}

const DEPTHS: [usize; 7] = [126, 127, 128, 1000, 20_000, 100_000, 1_000_000];
/// lengths of runs of non-final Message Splitter blocks (a Gecko list of that many 512-byte blocks)
const SPLITTER_RUNS: [usize; 4] = [600, 5_000, 40_000, 40_001];

/// A v3.16 replay whose Gecko list consists of `n` splitter blocks (all but the last non-final);
/// odd `n`: the file is cut in the middle of the run.
fn splitter_probe(n: usize) -> Vec<u8> {
	let mut m = crate::gen::simple_model((3, 16, 0), &[(0, false), (1, false)], 1, 1, crate::gen::Pattern::Zero, 1, true);
	m.gecko = Some(crate::model::Gecko { bytes: vec![0x4e; n * 512], actual: (n * 512 - 3) as u32 });
	let mut b = m.encode();
	if n % 2 == 1 {
		b.truncate(b.len() / 2);
	}
	b
}

/// metadata whose value is `n` nested UBJSON containers that peppi's grammar does not have (arrays `[`, or
/// arrays and maps alternating): refused at once today; a reader that grows array support must bound it too
fn container_probe(n: usize, mixed: bool) -> Vec<u8> {
	let m = crate::gen::simple_model((3, 16, 0), &[(0, false), (1, false)], 1, 1, crate::gen::Pattern::Zero, 1, false);
	let mut raw = m.raw();
	let mut md = Vec::with_capacity(n * 5 + 16);
	md.extend_from_slice(b"U\x01a");
	for i in 0..n {
		if mixed && i % 2 == 1 {
			md.extend_from_slice(b"{U\x01n");
		} else {
			md.push(b'[');
		}
	}
	md.extend_from_slice(b"l\x00\x00\x00\x01");
	for i in (0..n).rev() {
		md.push(if mixed && i % 2 == 1 { b'}' } else { b']' });
	}
	md.push(b'}');
	raw.metadata = Some(md);
	raw.serialize()
}

fn probe_bytes(kind: &str, n: usize) -> Vec<u8> {
	match kind {
		"splitter_run" => splitter_probe(n),
		"array_nesting" => container_probe(n, false),
		"mixed_nesting" => container_probe(n, true),
		_ => deep_probe(n),
	}
}

fn isolated_probes(ctx: &Ctx) -> Option<(Fail, Value)> {
	let dir = format!("{}/work", ctx.root);
	let _ = std::fs::create_dir_all(&dir);
	let probes: Vec<(&str, usize)> = DEPTHS
		.iter()
		.map(|d| ("deep", *d))
		.chain(SPLITTER_RUNS.iter().map(|n| ("splitter_run", *n)))
		.chain([200usize, 100_000, 1_000_000].iter().map(|n| ("array_nesting", *n)))
		.chain([200usize, 1_000_000].iter().map(|n| ("mixed_nesting", *n)))
		.collect();
	for (kind, n) in probes {
		let bytes = probe_bytes(kind, n);
		let path = format!("{}/c06_{}_{}_{}.slp", dir, kind, n, std::process::id());
		std::fs::write(&path, &bytes).expect("write probe");
		for mode in ["slp", "incremental"] {
			ctx.eval();
			ctx.class(&format!("isolated_{}_probe", kind));
			ctx.nontrivial(rt::hash_bytes(&[&n.to_le_bytes()[..], mode.as_bytes(), kind.as_bytes()].concat()));
			let r = watch::isolated_read(&path, false, n % 2 == 0, mode, 120);
			let what = if kind == "deep" { format!("metadata nested {} deep", n) } else if kind.ends_with("_nesting") { format!("metadata value of {} nested containers ({})", n, kind) } else { format!("a run of {} Message Splitter blocks{}", n, if n % 2 == 1 { " (file cut inside the run)" } else { "" }) };
			let bad = match &r {
				ChildResult::Returned(_) => None,
				ChildResult::Signal(sig, tail) => Some((format!("op=read abort signal={} {}>={}", sig, kind, if n >= 1000 { 1000 } else { n }), format!("{} ({} bytes): the process died with signal {} ({})", what, bytes.len(), sig, tail))),
				ChildResult::Panicked(t) => Some((format!("op=read panic {} n={}", kind, n), format!("{}: panic {}", what, t))),
				ChildResult::TimedOut => {
					eprintln!("{} probe timed out: inconclusive", kind);
					std::process::exit(2);
				}
				ChildResult::Other(o) => {
					eprintln!("{} probe could not run: {}", kind, o);
					std::process::exit(2);
				}
			};
			if let Some((sig, msg)) = bad {
				let _ = std::fs::remove_file(&path);
				// keep the replay small: the generator parameters reproduce the file
				let p = if kind == "deep" { json!({"depth": n, "mode": mode}) } else { json!({"probe": kind, "n": n, "mode": mode}) };
				return Some((Fail::new(sig, msg).with_detail(p.clone()), p));
			}
		}
		let _ = std::fs::remove_file(&path);
	}
	ctx.sample(json!({"kind": "isolated_probes", "metadata_depths": DEPTHS, "splitter_runs": SPLITTER_RUNS, "modes": ["one-shot", "incremental"], "how": "child process; death by signal = abort"}));
	None
}

fn other_file() -> Vec<u8> {
	crate::gen::simple_model((3, 9, 0), &[(0, true), (3, false)], 3, 99, crate::gen::Pattern::Random, 2, true).encode()
}

pub fn case(ctx: &Ctx, kind: &str, params: &Value, counting: bool) -> Result<(), Fail> {
	let stats = Stats { errors: Mutex::new(BTreeSet::new()) };
	match kind {
		"deep" => {
			let depth = params.get("depth").or_else(|| params.get("n")).and_then(|v| v.as_u64()).unwrap_or(1000) as usize;
			let mode = params["mode"].as_str().unwrap_or("slp").to_string();
			let bytes = probe_bytes(params["probe"].as_str().unwrap_or("deep"), depth);
			let path = format!("{}/work/c06_replay_{}.slp", ctx.root, std::process::id());
			let _ = std::fs::create_dir_all(format!("{}/work", ctx.root));
			std::fs::write(&path, &bytes).map_err(|e| Fail::new("io", e.to_string()))?;
			let r = watch::isolated_read(&path, false, false, &mode, 120);
			let _ = std::fs::remove_file(&path);
			match r {
				ChildResult::Returned(_) => Ok(()),
				o => Err(Fail::new("op=read abort", format!("depth {}: {:?}", depth, o))),
			}
		}
		"file" => battery(ctx, &Corrupted { bytes: rt::unhex(params["file"].as_str().unwrap_or("")), ops: vec![], model: json!(null) }, &stats, counting, true),
		_ => battery(ctx, &gen_corrupted(&dna_param(params), &cfg(ctx), &other_file()), &stats, counting, true),
	}
}

pub fn fuzz_bytes(ctx: &Ctx, bytes: &[u8]) -> Result<(), Fail> {
	let stats = Stats { errors: Mutex::new(BTreeSet::new()) };
	battery(ctx, &Corrupted { bytes: bytes.to_vec(), ops: vec![], model: json!(null) }, &stats, false, false)
}

pub fn fuzz_dna(ctx: &Ctx, dna: &[u8]) -> Result<(), Fail> {
	thread_local! {
		static OTHER: Vec<u8> = other_file();
	}
	let stats = Stats { errors: Mutex::new(BTreeSet::new()) };
	let mut c = GenCfg::quick();
	c.max_frames = 10;
	c.max_items = 4;
	let cor = OTHER.with(|o| gen_corrupted(dna, &c, o));
	battery(ctx, &cor, &stats, false, false)
}

pub fn file_case(bytes: &[u8]) -> Result<(), Fail> {
	let stats = Stats { errors: Mutex::new(BTreeSet::new()) };
	let ctx = Ctx::new("C06", rt::Tier::Quick, 0, "exploration", "/nonexistent");
	battery(&ctx, &Corrupted { bytes: bytes.to_vec(), ops: vec![], model: json!(null) }, &stats, false, true)
}

fn cfg(ctx: &Ctx) -> GenCfg {
	let mut c = GenCfg::quick();
	c.max_frames = ctx.n(10, 40);
	c.max_items = 4;
	c
}

pub fn run(ctx: &Ctx) -> usize {
	ctx.set_rule("structure-aware corruptions of generated valid replays of every regime (event insert/delete/duplicate/swap, wrong frame id, port byte 4..255 or unoccupied, follower flag on non-ICs, events illegal for the version with/without a table entry, payload-table size/zero/duplicate/drop/size-byte edits, declared raw length {0, 1, consumed+-k, actual+-k, 2^32-1, random}, splitter size/code/final/declared-size fields, metadata grammar violations, nesting depth 126..3000 in-process and up to 10^6 in a child process, no players), byte-level truncation/flips/splices/random bytes; each input read with all four {skip frames} x {hash} combinations and through the README incremental loop; fault injection: a hard I/O error at read call k (every k for small inputs) or at the seek must surface as Err, injected EINTR + short reads must give the same game or an error; oracle: Ok or Err, never a panic (hook records the site), never an abort (child process), read calls <= 16*len+4096 (no loop without consuming input); non-trivial = corrupted input that still passes the header, payload table and Game Start (reaches the event loop); distinct by xxh3 of the input");
	ctx.assume("Err is always acceptable; allocation size is not judged; the `debug` option (writes files) is outside the quantifier");
	let mut violations = 0;
	if let Some((f, p)) = isolated_probes(ctx) {
		if !ctx.is_known(&f) {
			ctx.report("deep", &p, &f);
			violations += 1;
			return violations;
		}
	}
	let cfg = cfg(ctx);
	let other = other_file();
	let stats = Stats { errors: Mutex::new(BTreeSet::new()) };
	let cases = ctx.n(200_000, 10_000_000);
	if run_dna(ctx, "dna", cases, 1536, |dna, counting| {
		let c = gen_corrupted(dna, &cfg, &other);
		let deep = dna.len() % 16 == 0;
		battery(ctx, &c, &stats, counting, deep)
	})
	.is_some()
	{
		violations += 1;
	}
	if !ctx.quick() && violations == 0 {
		let secs = std::env::var("PV_FUZZ_SECS").ok().and_then(|s| s.parse().ok()).unwrap_or(300);
		// raw bytes: valid files of every regime + fixtures' heads as seeds, and an empty-corpus run
		let mut seeds: Vec<Vec<u8>> = Vec::new();
		for (i, v) in [(0u8, 1u8, 0u8), (1, 0, 0), (2, 0, 1), (2, 2, 0), (3, 0, 0), (3, 3, 0), (3, 7, 0), (3, 16, 0)].iter().enumerate() {
			let mut m = crate::gen::simple_model(*v, &[(0, i % 2 == 0), (1, false)], 2, i as u64, crate::gen::Pattern::Random, (i % 3) as u8, i % 2 == 1);
			if spec::gte((v.0, v.1), (3, 3)) {
				m.gecko = Some(crate::model::Gecko { bytes: vec![1u8; 512], actual: 77 });
			}
			seeds.push(m.encode());
		}
		if rt::run_fuzz(ctx, "read_bytes", secs, 8, 8192, &seeds).is_some() {
			violations += 1;
		}
		if rt::run_fuzz(ctx, "read_bytes", secs / 4, 4, 4096, &[]).is_some() {
			violations += 1;
		}
		if rt::run_fuzz(ctx, "read_struct", secs, 8, 2048, &rt::random_seeds(ctx.seed, 12, 1024)).is_some() {
			violations += 1;
		}
	}
	let errs: Vec<String> = stats.errors.lock().unwrap().iter().cloned().collect();
	ctx.put("distinct_error_messages", json!(errs.len()));
	ctx.put("error_message_samples", json!(errs.iter().take(60).collect::<Vec<_>>()));
	violations
}
