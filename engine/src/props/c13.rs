//! C13 — the per-frame row view equals the columnar data at the same index.

use serde_json::{json, Value};

use super::*;
use crate::access::{row_end, row_item, row_post, row_pre, row_start, view_immutable, CharView, Cols, FrameView};
use crate::rt::{self, run_dna, run_enum};
use peppi::frame::transpose;
use peppi::game::Game as GameTrait;
use peppi::io::slippi::Version;

fn cols_vs_row(what: &str, cols: &Cols, i: usize, row: &[(&'static str, Option<u64>)]) -> Result<(), String> {
	if cols.len() != row.len() {
		return Err(format!("{}: {} columns vs {} row fields", what, cols.len(), row.len()));
	}
	for ((pc, c), (pr, r)) in cols.iter().zip(row) {
		if pc != pr {
			return Err(format!("{}: accessor tables out of step: {} vs {}", what, pc, pr));
		}
		match (c, r) {
			(None, None) => {}
			(Some(c), Some(r)) => {
				if c.get(i) != Some(r) {
					return Err(format!("{}.{} index {}: column {:?} vs row view {:#x}", what, pc, i, c.get(i), r));
				}
			}
			(c, r) => return Err(format!("{}.{}: column present {} but row field present {}", what, pc, c.is_some(), r.is_some())),
		}
	}
	Ok(())
}

fn char_vs_row(what: &str, c: &CharView, i: usize, d: &transpose::Data) -> Result<(), String> {
	cols_vs_row(&format!("{}.pre", what), &c.pre, i, &row_pre(&d.pre))?;
	cols_vs_row(&format!("{}.post", what), &c.post, i, &row_post(&d.post))
}

/// transposed frame `row` (obtained for index `i`) against the column view
pub fn row_matches(row: &transpose::Frame, view: &FrameView, i: usize, _version: Version) -> Result<(), String> {
	if view.ids.get(i) != Some(&row.id) {
		return Err(format!("id: column {:?} vs row {}", view.ids.get(i), row.id));
	}
	if row.ports.len() != view.ports.len() {
		return Err(format!("{} ports in row view, {} in columns", row.ports.len(), view.ports.len()));
	}
	for (pr, pv) in row.ports.iter().zip(&view.ports) {
		if pr.port as u8 != pv.port {
			return Err(format!("port {} vs {}", pr.port as u8, pv.port));
		}
		let w = format!("P{}", pv.port + 1);
		char_vs_row(&format!("{}.leader", w), &pv.leader, i, &pr.leader)?;
		match (&pr.follower, &pv.follower) {
			(None, None) => {}
			(Some(r), Some(c)) => char_vs_row(&format!("{}.follower", w), c, i, r)?,
			_ => return Err(format!("{}: follower presence differs", w)),
		}
	}
	match (&row.start, &view.start) {
		(None, None) => {}
		(Some(r), Some(c)) => cols_vs_row("start", c, i, &row_start(r))?,
		_ => return Err("start presence differs".into()),
	}
	match (&row.end, &view.end) {
		(None, None) => {}
		(Some(r), Some(c)) => cols_vs_row("end", c, i, &row_end(r))?,
		_ => return Err("end presence differs".into()),
	}
	match (&row.items, &view.item_offsets, &view.item) {
		(None, None, None) => {}
		(Some(items), Some(offs), Some(cols)) => {
			let (a, b) = match (offs.get(i), offs.get(i + 1)) {
				(Some(a), Some(b)) => (*a as usize, *b as usize),
				_ => return Err(format!("item offsets missing for row {}", i)),
			};
			if items.len() != b - a {
				return Err(format!("row view has {} items, offsets delimit {}", items.len(), b - a));
			}
			for (k, it) in items.iter().enumerate() {
				cols_vs_row(&format!("item[{}]", k), cols, a + k, &row_item(it))?;
			}
		}
		_ => return Err("item presence differs".into()),
	}
	Ok(())
}

/// In-progress representation: drive the incremental API; whenever a frame completes (>= 3.0: its Frame
/// End arrived; < 3.0: a later frame opened) its row view must equal the mutable columns at that index,
/// immediately and again at the end of the stream.
fn inprogress(bytes: &[u8], m: &ModelGame) -> Result<(), Fail> {
	use crate::access::view_mutable;
	use peppi::io::slippi::de;
	let has_fend = spec::gte(m.v(), (3, 0));
	let mut r = std::io::Cursor::new(bytes);
	let out = rt::guard(|| -> Result<Result<(), String>, String> {
		let size = de::parse_header(&mut r, None).map_err(|e| e.to_string())? as usize;
		let mut state = de::parse_start(&mut r, None).map_err(|e| e.to_string())?;
		let version = state.start().slippi.version;
		let mut closed = 0usize;
		// very large games: the in-progress comparisons copy the columns, so they are made at ~48
		// points of the stream instead of after every event (the end-of-stream pass stays complete)
		let total_items: usize = m.frames.iter().map(|f| f.items.len()).sum();
		let heavy = m.frames.len() > 1500 || total_items > 5000;
		let estride = ((m.frames.len() * 4 + total_items) / 48).max(1);
		let mut events = 0usize;
		while state.bytes_read() < size {
			let code = de::parse_event(&mut r, &mut state, None).map_err(|e| e.to_string())?;
			events += 1;
			if heavy && events % estride != 0 && code != spec::EV_GAME_END {
				continue;
			}
			let len = state.frames().len();
			let now = if has_fend {
				if code == spec::EV_FRAME_END {
					len
				} else if heavy {
					// sampled mid-frame: every row before the open one is complete
					len.saturating_sub(1).max(closed)
				} else {
					closed
				}
			} else {
				len.saturating_sub(1)
			};
			if now > closed {
				let cur = view_mutable(state.frames());
				for i in (if heavy { now - 1 } else { closed })..now {
					let row = state.frame(i);
					let row2 = state.frames().transpose_one(i, version);
					if format!("{:?}", row) != format!("{:?}", row2) {
						return Ok(Err(format!("ParseState::frame({}) != frames().transpose_one({})", i, i)));
					}
					if let Err(e) = row_matches(&row, &cur, i, version) {
						return Ok(Err(format!("in-progress row {} (just completed by event {:#x}): {}", i, code, e)));
					}
				}
				closed = now;
			} else if closed > 0 {
				// while the next frame is being parsed, the last completed frame must keep matching its columns
				let cur = view_mutable(state.frames());
				if let Err(e) = row_matches(&state.frame(closed - 1), &cur, closed - 1, version) {
					return Ok(Err(format!("in-progress row {} re-read after event {:#x} of the next frame: {}", closed - 1, code, e)));
				}
			}
			if code == spec::EV_GAME_END {
				break;
			}
		}
		let cur = view_mutable(state.frames());
		for i in 0..closed {
			if let Err(e) = row_matches(&state.frame(i), &cur, i, version) {
				return Ok(Err(format!("in-progress row {} at end of stream: {}", i, e)));
			}
		}
		Ok(Ok(()))
	});
	match out {
		rt::Out::Ok(Ok(())) => Ok(()),
		rt::Out::Ok(Err(e)) => {
			let key: String = e.split(" index ").next().unwrap_or("").chars().filter(|c| !c.is_ascii_digit()).take(70).collect();
			Err(Fail::new(format!("op=rowview inprogress {}", key), format!("v{}.{}: {}", m.version.0, m.version.1, e)).with_file("slp", bytes))
		}
		rt::Out::Err(e) => Err(Fail::new("op=rowview inprogress driver_err", e).with_file("slp", bytes)),
		rt::Out::Panic(p) => Err(Fail::new(format!("op=rowview inprogress panic~{}", rt::panic_site(&p)), p).with_file("slp", bytes)),
	}
}

fn check(ctx: &Ctx, m: &ModelGame, label: &str, counting: bool) -> Result<(), Fail> {
	let bytes = m.encode();
	super::sibling_history(m, &bytes);
	if counting {
		ctx.eval();
		let f = classify(ctx, m);
		ctx.class(label);
		if f.frames >= 1 {
			ctx.nontrivial(rt::hash_bytes(&bytes));
		}
		ctx.add("rows_checked", f.frames as u64);
		ctx.sample_k(label, 4, || m.summary());
	}
	let g = rt::slp_read_default(&bytes).expect_ok("slippi::read").map_err(|f| f.with_file("slp", &bytes))?;
	let view = view_immutable(&g.frames);
	let version = g.start.slippi.version;
	for i in 0..g.frames.len() {
		let row = rt::guard(|| Ok::<_, String>(g.frame(i))).expect_ok("Game::frame").map_err(|f| f.with_file("slp", &bytes))?;
		let row2 = g.frames.transpose_one(i, version);
		if format!("{:?}", row) != format!("{:?}", row2) {
			return Err(Fail::new("op=rowview trait", format!("Game::frame({}) != frames.transpose_one({})", i, i)).with_file("slp", &bytes));
		}
		row_matches(&row, &view, i, version).map_err(|e| {
			let key: String = e.split(" index ").next().unwrap_or("").chars().take(70).collect();
			Fail::new(format!("op=rowview {}", key), format!("v{}.{} frame index {}: {}", m.version.0, m.version.1, i, e)).with_file("slp", &bytes).with_detail(m.summary())
		})?;
	}
	// a game trimmed through the public Arrow API (export, drop the first k rows, import): still a game, but
	// its list offsets no longer start at 0 and its bitmaps carry an offset
	if g.frames.len() >= 3 && rt::hash_bytes(&bytes) % 4 == 1 {
		let g_b = rt::slp_read_default(&bytes).expect_ok("slippi::read").map_err(|f| f.with_file("slp", &bytes))?;
		let occ = peppi::game::port_occupancy(&g_b.start);
		let n = g_b.frames.len();
		let k = 1 + (rt::hash_bytes(&bytes) >> 8) as usize % (n - 1);
		let trimmed = rt::guard(|| Ok::<_, String>(peppi::frame::immutable::Frame::from_struct_array(g_b.frames.into_struct_array(version, &occ).sliced(k, n - k), version)))
			.expect_ok("from_struct_array(sliced)")
			.map_err(|f| f.with_file("slp", &bytes))?;
		let tview = view_immutable(&trimmed);
		for i in 0..trimmed.len() {
			let row = rt::guard(|| Ok::<_, String>(trimmed.transpose_one(i, version))).expect_ok("transpose_one(trimmed game)").map_err(|f| f.with_file("slp", &bytes))?;
			row_matches(&row, &tview, i, version).map_err(|e| Fail::new("op=rowview trimmed_game", format!("v{}.{} game trimmed by {} rows through the Arrow API, frame index {}: {}", m.version.0, m.version.1, k, i, e)).with_file("slp", &bytes))?;
		}
		if counting {
			ctx.class("rows_of_trimmed_game");
		}
	}
	// the game::Game trait view of the finished game agrees with its fields
	if format!("{:?}", GameTrait::start(&g)) != format!("{:?}", g.start) || format!("{:?}", GameTrait::end(&g)) != format!("{:?}", g.end) || GameTrait::len(&g) != g.frames.len() || GameTrait::metadata(&g) != &g.metadata || GameTrait::gecko_codes(&g) != &g.gecko_codes {
		return Err(Fail::new("op=rowview trait_accessors", "game::Game accessors disagree with the game's fields").with_file("slp", &bytes));
	}
	// the finished representation also comes out of the .slpp reader: same row views there
	if (bytes.len() + m.frames.len()) % 4 == 0 && !m.ports.is_empty() {
		let p = rt::slpp_write(g, rt::Comp::ALL[bytes.len() % 3]).expect_ok("peppi::write").map_err(|f| f.with_file("slp", &bytes))?;
		let g2 = rt::slpp_read(&p, false).expect_ok("peppi::read").map_err(|f| f.with_file("slp", &bytes))?;
		let view2 = view_immutable(&g2.frames);
		for i in 0..g2.frames.len() {
			let row = rt::guard(|| Ok::<_, String>(g2.frame(i))).expect_ok("Game::frame(.slpp game)").map_err(|f| f.with_file("slp", &bytes))?;
			row_matches(&row, &view2, i, version).map_err(|e| Fail::new("op=rowview slpp_game", format!("v{}.{} frame index {} of the game read from .slpp: {}", m.version.0, m.version.1, i, e)).with_file("slp", &bytes))?;
		}
		if counting {
			ctx.class("rows_of_slpp_read_game");
		}
	}
	inprogress(&bytes, m)
}

fn sweep_model(i: usize) -> ModelGame {
	let minors = spec::all_minors();
	let (ma, mi) = minors[i % minors.len()];
	let k = i / minors.len();
	let ports: &[(u8, bool)] = [&[(0u8, false), (1, true)][..], &[(3, false)][..], &[(0, true), (1, false), (2, false), (3, true)][..]][k % 3];
	let mut m = crate::gen::simple_model((ma, mi, 0), ports, 4, 500 + i as u64, crate::gen::Pattern::Distinct, 1, false);
	if m.frames.len() > 2 && m.slots().len() > 1 {
		m.frames[2].chars[1] = None;
	}
	m
}

fn dna_model(dna: &[u8], cfg: &crate::gen::GenCfg) -> ModelGame {
	model_from_dna(dna, cfg)
}

pub fn case(ctx: &Ctx, kind: &str, params: &Value, counting: bool) -> Result<(), Fail> {
	match kind {
		"sweep" => check(ctx, &sweep_model(params["i"].as_u64().unwrap_or(0) as usize), "sweep", counting),
		"large" => check(ctx, &large_model(params["i"].as_u64().unwrap_or(0) as usize), "large_game", counting),
		"fixture" => match fixture_model(&dna_param(params)) {
			Some((_, m)) => check(ctx, &m, "fixture", counting),
			None => Ok(()),
		},
		_ => check(ctx, &dna_model(&dna_param(params), &cfg_for(ctx)), "dna", counting),
	}
}

pub fn run(ctx: &Ctx) -> usize {
	ctx.set_rule("generated replays of all 784 minor versions x 3 port layouts with pairwise-distinct leaf patterns (so a swapped pair of same-typed fields cannot hide), plus random models; every frame index: Game::frame(i) / transpose_one(i) compared leaf by leaf (two hand-written accessor tables: columns and row structs, keyed by the public field names) with the column value at i, absent columns <=> absent row fields, items == the slice delimited by the item offsets; the in-progress representation: the incremental API is driven over the same file and each frame's row view (ParseState::frame / mutable transpose_one) is compared with the mutable columns as soon as it completes and again at the end of the stream (C12's driver does the same under read fragmentation); non-trivial = >=1 row; distinct by xxh3 of the file");
	let mut violations = 0;
	let n = spec::all_minors().len() * ctx.n(1, 3);
	if run_enum(ctx, "sweep", n, |i| json!({ "i": i }), |i| check(ctx, &sweep_model(i), "sweep", true)).is_some() {
		violations += 1;
	}
	let cfg = cfg_for(ctx);
	if run_dna(ctx, "dna", ctx.n(30_000, 1_500_000), dna_max(ctx), |dna, counting| check(ctx, &dna_model(dna, &cfg), "dna", counting)).is_some() {
		violations += 1;
	}
	if fixture_count() > 0 {
		if run_dna(ctx, "fixture", ctx.n(3_000, 150_000), 512, |dna, counting| match fixture_model(dna) {
			Some((_, m)) => check(ctx, &m, "fixture", counting),
			None => Ok(()),
		})
		.is_some()
		{
			violations += 1;
		}
	}
	// games that cross 8-bit / 16-bit counters (items per frame, items in total, frame rows)
	if violations == 0 && run_enum(ctx, "large", LARGE_CASES, |i| json!({ "i": i }), |i| check(ctx, &large_model(i), "large_game", true)).is_some() {
		violations += 1;
	}
	violations
}
