//! C20 — version comparison, parsing and display are mutually consistent and total.

use std::str::FromStr;
use std::sync::atomic::{AtomicUsize, Ordering};

use serde_json::{json, Value};

use super::*;
use crate::rt::{self, run_dna, run_enum, Out};
use peppi::io::peppi::Version as PVersion;
use peppi::io::slippi::Version as SVersion;

fn ref_gte(v: (u8, u8), t: (u8, u8)) -> bool {
	v.0 > t.0 || (v.0 == t.0 && v.1 >= t.1)
}

/// one row of the comparison square: version (ma, mi) against all 2^16 thresholds
fn row(i: usize) -> Result<(), Fail> {
	let (ma, mi) = ((i >> 8) as u8, (i & 0xFF) as u8);
	let v = SVersion(ma, mi, (i * 31 % 256) as u8);
	for t in 0..=0xFFFFusize {
		let (tm, tn) = ((t >> 8) as u8, (t & 0xFF) as u8);
		let want = ref_gte((ma, mi), (tm, tn));
		let g = v.gte(tm, tn);
		let l = v.lt(tm, tn);
		if g != want || l == g {
			return Err(Fail::new("op=cmp", format!("Version({},{},_).gte({},{}) = {}, lt = {}; expected gte {}", ma, mi, tm, tn, g, l, want)));
		}
	}
	Ok(())
}

/// display/parse round trip for all 2^16 (major, minor) x patch row `i` (patch = i)
fn display_row(i: usize) -> Result<(), Fail> {
	let patch = i as u8;
	for mm in 0..=0xFFFFusize {
		let (a, b) = ((mm >> 8) as u8, (mm & 0xFF) as u8);
		let s = format!("{}.{}.{}", a, b, patch);
		let v = SVersion(a, b, patch);
		let d = v.to_string();
		if d != s {
			return Err(Fail::new("op=display slippi", format!("{:?} displays as {:?}, expected {:?}", v, d, s)));
		}
		match SVersion::from_str(&d) {
			Ok(p) if p == v => {}
			o => return Err(Fail::new("op=parse slippi", format!("parse({:?}) = {:?}, expected {:?}", d, o.map_err(|e| e.to_string()), v))),
		}
		let pv = PVersion(a, b, patch);
		let d = pv.to_string();
		if d != s {
			return Err(Fail::new("op=display peppi", format!("{:?} displays as {:?}, expected {:?}", pv, d, s)));
		}
		match PVersion::from_str(&d) {
			Ok(p) if p == pv => {}
			o => return Err(Fail::new("op=parse peppi", format!("parse({:?}) = {:?}, expected {:?}", d, o.map_err(|e| e.to_string()), pv))),
		}
	}
	Ok(())
}

#[derive(Debug, PartialEq)]
enum Expect {
	/// canonical: must parse to exactly this
	Accept(u8, u8, u8),
	/// outside the grammar: must be rejected
	Reject,
	/// leading '+' / leading zeros: Rust's integer parser accepts them; not asserted either way
	Unspecified,
}

fn comp_value(c: &str) -> Option<(u32, bool)> {
	// returns (value, canonical?) when c matches [+]?[0-9]+ and value <= 255
	let (digits, plus) = match c.strip_prefix('+') {
		Some(r) => (r, true),
		None => (c, false),
	};
	if digits.is_empty() || !digits.bytes().all(|b| b.is_ascii_digit()) {
		return None;
	}
	let trimmed = digits.trim_start_matches('0');
	if trimmed.len() > 3 {
		return None;
	}
	let val: u32 = if trimmed.is_empty() { 0 } else { trimmed.parse().ok()? };
	if val > 255 {
		return None;
	}
	let canonical = !plus && (digits == "0" || !digits.starts_with('0'));
	Some((val, canonical))
}

fn expect(s: &str) -> Expect {
	let parts: Vec<&str> = s.split('.').collect();
	if parts.len() != 3 {
		return Expect::Reject;
	}
	let mut vals = [0u8; 3];
	let mut canon = true;
	for (i, p) in parts.iter().enumerate() {
		match comp_value(p) {
			None => return Expect::Reject,
			Some((v, c)) => {
				vals[i] = v as u8;
				canon &= c;
			}
		}
	}
	if canon {
		Expect::Accept(vals[0], vals[1], vals[2])
	} else {
		Expect::Unspecified
	}
}

const COMPONENTS: [&str; 40] = [
	"0", "1", "3", "16", "255", "256", "257", "999", "1000", "65536", "4294967296", "", " ", "1 ", " 1", "-1", "-0", "+1", "01", "000", "0255",
	"00256", "a", "1a", "0x1", "1e1", "١", "３", "²", "1\u{0}", "\t2", "2\n", "1_0", "٣٤", "255.", ".", "1,2", "1.", "½", "①",
];
const SEPS: [&str; 6] = [".", ".", ".", ",", "..", " "];

fn gen_string(dna: &[u8]) -> String {
	let mut d = Dna::new(dna);
	let mode = d.u8();
	let arity = match mode {
		0..=149 => 3,
		_ => d.below(7),
	};
	let mut s = String::new();
	for i in 0..arity {
		if i > 0 {
			s.push_str(if d.u8() < 230 { "." } else { SEPS[d.below(SEPS.len())] });
		}
		let c = d.u8();
		if c < 140 {
			s.push_str(&format!("{}", d.u8()));
		} else if c < 160 {
			s.push_str(&format!("{}", d.u16()));
		} else {
			s.push_str(COMPONENTS[d.below(COMPONENTS.len())]);
		}
	}
	match d.u8() {
		250..=255 => s.push('.'),
		244..=249 => s.insert(0, '.'),
		240..=243 => s.push(' '),
		// a valid-looking string inside a wrapper a lenient parser might strip
		228..=239 => {
			let (a, b) = [("\"", "\""), ("'", "'"), ("v", ""), ("V", ""), ("[", "]"), ("(", ")"), (" ", " "), ("\t", "\n"), ("=", ""), ("", "\0"), ("\u{feff}", ""), ("<", ">")][d.below(12)];
			s = format!("{}{}{}", a, s, b);
		}
		// one very long component (error paths that echo or slice the offending text), with multi-byte
		// characters at varying byte offsets
		216..=227 => {
			let lead = d.below(140);
			let mut long = "7".repeat(lead);
			long.push(['é', 'ポ', '😀', '٣'][d.below(4)]);
			long.push_str(&"1".repeat(d.below(80)));
			let k = d.below(3);
			let mut parts: Vec<String> = s.split('.').map(|x| x.to_string()).collect();
			while parts.len() < 3 {
				parts.push("0".into());
			}
			parts[k] = long;
			s = parts.join(".");
		}
		_ => {}
	}
	s
}

fn check_string(ctx: &Ctx, s: &str, counting: bool) -> Result<(), Fail> {
	let e = expect(s);
	if counting {
		ctx.eval();
		ctx.class(match e {
			Expect::Accept(..) => "str:canonical",
			Expect::Reject => "str:must_reject",
			Expect::Unspecified => "str:unspecified(+/leading zeros)",
		});
		// non-trivial: one edit away from a valid version string (3 parts, exactly one bad), or canonical
		let parts: Vec<&str> = s.split('.').collect();
		let bad = parts.iter().filter(|p| comp_value(p).map_or(true, |(_, c)| !c)).count();
		if (parts.len() == 3 && bad <= 1) || (parts.len() == 4 && bad == 0) || (parts.len() == 2 && bad == 0) {
			ctx.nontrivial(rt::hash_bytes(s.as_bytes()));
		}
		ctx.sample_k("string", 6, || json!({"s": s, "expect": format!("{:?}", e)}));
	}
	let so = rt::guard(|| SVersion::from_str(s));
	let po = rt::guard(|| PVersion::from_str(s));
	for (which, got) in [
		("slippi", match &so { Out::Ok(v) => Ok((v.0, v.1, v.2)), Out::Err(e) => Err(e.clone()), Out::Panic(p) => return Err(Fail::new("op=parse panic", format!("from_str({:?}) panicked: {}", s, p))) }),
		("peppi", match &po { Out::Ok(v) => Ok((v.0, v.1, v.2)), Out::Err(e) => Err(e.clone()), Out::Panic(p) => return Err(Fail::new("op=parse panic", format!("from_str({:?}) panicked: {}", s, p))) }),
	] {
		match (&e, &got) {
			(Expect::Accept(a, b, c), Ok(v)) if *v == (*a, *b, *c) => {}
			(Expect::Accept(..), _) => return Err(Fail::new(format!("op=parse {} accept", which), format!("{} from_str({:?}) = {:?}, expected {:?}", which, s, got, e))),
			(Expect::Reject, Ok(v)) => return Err(Fail::new(format!("op=parse {} reject", which), format!("{} from_str({:?}) accepted as {:?}; must be rejected", which, s, v))),
			_ => {}
		}
	}
	Ok(())
}

pub fn case(ctx: &Ctx, kind: &str, params: &Value, counting: bool) -> Result<(), Fail> {
	match kind {
		"cmp_row" => row(params["i"].as_u64().unwrap_or(0) as usize),
		"display_row" => display_row(params["i"].as_u64().unwrap_or(0) as usize),
		"string" => check_string(ctx, params["s"].as_str().unwrap_or(""), counting),
		_ => check_string(ctx, &gen_string(&dna_param(params)), counting),
	}
}

pub fn run(ctx: &Ctx) -> usize {
	ctx.set_rule("exhaustive: all 2^16 (major, minor) x all 2^16 thresholds for gte/lt against lexicographic tuple comparison (lt == !gte); all 2^24 triples through Display -> FromStr for both Version types; generated strings from a grammar of near-valid version strings (wrong arity, empty/oversized/non-digit/signed/whitespace/unicode-digit components, stray separators); must-reject = not three '.'-separated [+]?[0-9]+ components <= 255, must-accept = canonical decimal; leading '+'/zeros unspecified; non-trivial strings = within one edit of valid; distinct by string");
	let mut violations = 0;
	let done = AtomicUsize::new(0);
	if run_enum(ctx, "cmp_row", 1 << 16, |i| json!({ "i": i }), |i| {
		done.fetch_add(1, Ordering::Relaxed);
		row(i)
	})
	.is_some()
	{
		violations += 1;
	}
	ctx.evals((done.load(Ordering::Relaxed) as u64) << 16);
	ctx.put("comparison_pairs_checked", json!((done.load(Ordering::Relaxed) as u64) << 16));
	let done2 = AtomicUsize::new(0);
	if run_enum(ctx, "display_row", 256, |i| json!({ "i": i }), |i| {
		done2.fetch_add(1, Ordering::Relaxed);
		display_row(i)
	})
	.is_some()
	{
		violations += 1;
	}
	ctx.evals((done2.load(Ordering::Relaxed) as u64) << 17);
	ctx.put("display_parse_triples_checked_per_type", json!((done2.load(Ordering::Relaxed) as u64) << 16));
	if violations == 0 {
		ctx.exhaustive.store(true, Ordering::Relaxed);
		ctx.put("exhaustive_parts", json!(["gte/lt over 2^16 x 2^16", "Display->FromStr over 2^24 triples x 2 types"]));
		ctx.sample(json!({"kind": "cmp", "version": "3.16.x", "thresholds": "0.0 ..= 255.255", "note": "every (version, threshold) pair enumerated"}));
	}
	// fixed must-reject / must-accept strings
	let fixed = ["", ".", "..", "...", "1", "1.2", "1.2.3.4", "1.2.3.", ".1.2.3", "1..3", "256.0.0", "0.256.0", "0.0.256", "-1.0.0", "1.2.-3", " 1.2.3", "1.2.3 ", "1. 2.3", "1,2,3", "a.b.c", "1.2.x", "１.２.３", "1.2.3\n", "3.16.0", "0.0.0", "255.255.255", "0.1.0", "1.2.3.0", "1e1.0.0", "0x1.0.0", "٣.1.1", "999.1.1", "1.2.3.4.5.6"];
	if run_enum(ctx, "string", fixed.len(), |i| json!({ "s": fixed[i] }), |i| check_string(ctx, fixed[i], true)).is_some() {
		violations += 1;
	}
	if run_dna(ctx, "dna", ctx.n(300_000, 15_000_000), 64, |dna, counting| check_string(ctx, &gen_string(dna), counting)).is_some() {
		violations += 1;
	}
	violations
}
