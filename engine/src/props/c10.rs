//! C10 — skip-frames parsing returns the same start, end and metadata as a full parse.

use serde_json::{json, Value};

use super::*;
use crate::access::{diff_views, view_immutable, view_model};
use crate::cmp::{diff_games, CmpOpts};
use crate::rt::{self, run_dna, run_enum, Comp};

struct Case {
	m: ModelGame,
	hash: bool,
	comp: Comp,
	/// bytes of unknown-event filler between the frames and the Game End (distance to skip)
	pad: usize,
}

fn gen_case(dna: &[u8], cfg: &crate::gen::GenCfg) -> Case {
	let mut d = Dna::new(dna);
	let f = d.u8();
	let mut cfg = cfg.clone();
	cfg.finished = true;
	// a share of files from newer versions (longer known payloads, incl. Game End): still finished replays
	cfg.newer = f >= 216;
	let pad = if d.u8() >= 240 { [8_000usize, 65_000, 131_000][d.below(3)] + d.below(2_000) } else { 0 };
	Case { m: super::gen_model_mixed(&mut d, &cfg, true), hash: f & 1 != 0, comp: Comp::ALL[(f as usize >> 1) % 3], pad }
}

fn se_opts() -> CmpOpts {
	CmpOpts { frames: false, hash: false, quirks: false }
}

/// start / end / metadata equality (gecko and quirks are outside the property)
fn same_sem(a: &peppi::game::immutable::Game, b: &peppi::game::immutable::Game) -> Result<(), String> {
	if a.start.bytes.0 != b.start.bytes.0 || format!("{:?}", a.start) != format!("{:?}", b.start) {
		return Err("start differs".into());
	}
	match (&a.end, &b.end) {
		(Some(x), Some(y)) if x.bytes.0 == y.bytes.0 && format!("{:?}", x) == format!("{:?}", y) => {}
		(None, None) => {}
		_ => return Err("end differs".into()),
	}
	if crate::cmp::meta_string(&a.metadata) != crate::cmp::meta_string(&b.metadata) {
		return Err("metadata differs".into());
	}
	Ok(())
}

fn check(ctx: &Ctx, c: &Case, label: &str, counting: bool) -> Result<(), Fail> {
	let m = &c.m;
	let bytes = super::encode_padded(m, c.pad);
	if c.pad == 0 {
		super::sibling_history(m, &bytes);
	}
	if counting {
		ctx.eval();
		let f = classify(ctx, m);
		ctx.class(label);
		if c.pad > 0 {
			ctx.class(&format!("skip_distance>={}KiB", [8192, 4096, 1024, 64, 8].iter().find(|k| c.pad >= **k * 1024).copied().unwrap_or(0)));
		}
		ctx.class(if c.hash { "hash_on" } else { "hash_off" });
		ctx.class(&format!("compression={}", c.comp.name()));
		if f.frames >= 1 && (f.gecko || f.double_end || !f.metadata || c.hash) {
			let mut h = bytes.clone();
			h.push(c.hash as u8);
			h.push(c.comp as u8);
			ctx.nontrivial(rt::hash_bytes(&h));
		}
		ctx.sample_k(label, 4, || json!({"model": m.summary(), "hash": c.hash, "compression": c.comp.name()}));
	}
	let detail = json!({"model": m.summary(), "hash": c.hash, "compression": c.comp.name()});
	let fail = |sig: &str, msg: String| Fail::new(format!("op=skip {}", sig), format!("v{}.{}: {}", m.version.0, m.version.1, msg)).with_file("slp", &bytes).with_detail(detail.clone());
	let full = rt::slp_read(&bytes, false, c.hash).expect_ok("slippi::read(full)").map_err(|f| f.with_file("slp", &bytes))?;
	let skip = rt::slp_read(&bytes, true, c.hash).expect_ok("slippi::read(skip_frames)").map_err(|f| f.with_file("slp", &bytes).with_detail(detail.clone()))?;
	// the same skip-frames read through a stream that fragments reads must give the same start/end/metadata
	{
		use crate::readers::{SchedReader, Schedule};
		let sched = match bytes.len() % 5 {
			0 => Schedule::Fixed(1),
			1 => Schedule::Fixed(7),
			2 => Schedule::Random(bytes.len() as u64 + 1, 16),
			3 => Schedule::Split(bytes.len() / 3),
			_ => Schedule::Fixed(4096),
		};
		let mut r = SchedReader::new(&bytes, sched.clone());
		let o = rt::slp_opts(true, c.hash);
		let frag = rt::guard(|| peppi::io::slippi::read(&mut r, Some(&o))).expect_ok("slippi::read(skip_frames, fragmented)").map_err(|f| f.with_file("slp", &bytes).with_detail(json!({"model": m.summary(), "hash": c.hash, "schedule": sched.describe()})))?;
		same_sem(&frag, &full).map_err(|e| fail("sem_fragmented", format!("skip-frames over a fragmenting stream ({}) vs full: {}", sched.describe(), e)))?;
		if c.hash && frag.hash != full.hash {
			return Err(fail("hash_fragmented", format!("hash {:?} vs {:?} ({})", frag.hash, full.hash, sched.describe())));
		}
	}
	// the replay embedded in a longer stream, the reader handed over positioned at its first byte
	// (second replay of a concatenated dump, member of an uncompressed archive, ...): wherever the
	// full read works on such a reader, the skip-frames read must give the same start/end/metadata
	{
		let mut stream = match (&m.end, bytes.len() % 2) {
			(crate::model::EndSpec::None, _) | (_, 0) => {
				let mut junk = vec![0u8; 1 + bytes.len() * 7 % 611];
				crate::gen::SplitMix(bytes.len() as u64).fill(&mut junk);
				junk
			}
			_ => {
				// a sibling replay of the same length whose Game End and metadata differ
				let mut sib = m.clone();
				sib.end = match &m.end {
					crate::model::EndSpec::One(b) => crate::model::EndSpec::One(b.iter().map(|x| x ^ 0x55).collect()),
					crate::model::EndSpec::Two(b) => crate::model::EndSpec::Two(b.iter().map(|x| x ^ 0x55).collect()),
					crate::model::EndSpec::None => crate::model::EndSpec::None,
				};
				sib.encode()
			}
		};
		let at = stream.len();
		stream.extend_from_slice(&bytes);
		stream.extend_from_slice(&[0x7d, 0x55, 0, 0x36, 0x39]);
		let of = rt::slp_opts(false, c.hash);
		let os = rt::slp_opts(true, c.hash);
		if let (rt::Out::Ok(efull), _) = rt::slp_read_embedded(&stream, at, Some(&of)) {
			if counting {
				ctx.class("embedded_stream");
			}
			let eskip = rt::slp_read_embedded(&stream, at, Some(&os)).0.expect_ok("slippi::read(skip_frames, reader positioned at an embedded replay)").map_err(|f| f.with_file("slp", &bytes).with_file("stream.bin", &stream).with_detail(json!({"model": m.summary(), "hash": c.hash, "replay_starts_at": at})))?;
			same_sem(&eskip, &efull).map_err(|e| fail("sem_embedded", format!("replay at offset {} of a longer stream, skip-frames vs full on the same reader: {}", at, e)).with_file("stream.bin", &stream))?;
			if c.hash && eskip.hash != efull.hash {
				return Err(fail("hash_embedded", format!("replay at offset {} of a longer stream: hash {:?} vs {:?}", at, eskip.hash, efull.hash)).with_file("stream.bin", &stream));
			}
		} else if counting {
			ctx.class("embedded_stream_full_read_unsupported");
		}
	}
	// a reader that reports `Interrupted` now and then (a signal arriving during a blocking read): wherever
	// the full read copes with it, the skip-frames read must too, with the same result
	if bytes.len() % 3 == 0 {
		use crate::readers::{SchedReader, Schedule};
		let mk = || {
			let mut r = SchedReader::new(&bytes, Schedule::Fixed(37 + bytes.len() % 300));
			r.interrupts = 1 + bytes.len() % 2;
			r.interrupt_calls = usize::MAX;
			r
		};
		let of = rt::slp_opts(false, c.hash);
		let os = rt::slp_opts(true, c.hash);
		let mut r1 = mk();
		if let rt::Out::Ok(ifull) = rt::guard(|| peppi::io::slippi::read(&mut r1, Some(&of))) {
			if counting {
				ctx.class("interrupted_reads");
			}
			let mut r2 = mk();
			let iskip = rt::guard(|| peppi::io::slippi::read(&mut r2, Some(&os))).expect_ok("slippi::read(skip_frames, reader that reports Interrupted)").map_err(|f| f.with_file("slp", &bytes).with_detail(detail.clone()))?;
			same_sem(&iskip, &ifull).map_err(|e| fail("sem_interrupted", format!("reader reporting Interrupted, skip-frames vs full: {}", e)))?;
			if c.hash && iskip.hash != ifull.hash {
				return Err(fail("hash_interrupted", format!("reader reporting Interrupted: hash {:?} vs {:?}", iskip.hash, ifull.hash)));
			}
		}
	}
	same_sem(&skip, &full).map_err(|e| fail("sem", format!("skip-frames vs full: {}", e)))?;
	if c.hash && skip.hash != full.hash {
		return Err(fail("hash", format!("hash {:?} vs {:?}", skip.hash, full.hash)));
	}
	// zero rows, and exactly the (empty) column set of the version and ports
	let mut empty = m.clone();
	empty.frames.clear();
	diff_views(&view_immutable(&skip.frames), &view_model(&empty)).map_err(|e| fail("empty_frames", format!("skip-frames game's frame columns: {}", e)))?;
	if m.version > spec::MAX_VERSION {
		// writers refuse newer versions (C09): the write/re-read clauses do not apply
		if counting {
			ctx.class("newer_version_skip_vs_full_only");
		}
		return Ok(());
	}
	// it can be written and re-read, and the re-read equals it
	let w = rt::slp_write(&skip).expect_ok("slippi::write(skip game)").map_err(|f| f.with_file("slp", &bytes).with_detail(detail.clone()))?;
	let re = rt::slp_read(&w, false, false).expect_ok("slippi::read(written skip game)").map_err(|f| f.with_file("slp", &bytes).with_file("written.slp", &w))?;
	same_sem(&re, &skip).map_err(|e| fail("reread", format!("re-read of the written skip-frames game: {}", e)))?;
	if re.frames.len() != 0 {
		return Err(fail("reread_rows", format!("re-read has {} rows", re.frames.len())));
	}
	// ... and it can be read with skip-frames again (a finished replay with nothing left to skip)
	let re_skip = rt::slp_read(&w, true, c.hash).expect_ok("slippi::read(written skip game, skip_frames)").map_err(|f| f.with_file("slp", &bytes).with_file("written.slp", &w).with_detail(detail.clone()))?;
	same_sem(&re_skip, &full).map_err(|e| fail("reread_skip", format!("skip-frames re-read of the written skip-frames game: {}", e)))?;
	let _ = se_opts();
	// through .slpp
	let p = rt::slpp_write(skip, c.comp).expect_ok("peppi::write(skip game)").map_err(|f| f.with_file("slp", &bytes).with_detail(detail.clone()))?;
	let re2 = rt::slpp_read(&p, false).expect_ok("peppi::read(skip game)").map_err(|f| f.with_file("slp", &bytes).with_file("slpp", &p).with_detail(detail.clone()))?;
	same_sem(&re2, &full).map_err(|e| fail("slpp_reread", format!(".slpp of the skip-frames game: {}", e)))?;
	if re2.frames.len() != 0 {
		return Err(fail("slpp_reread_rows", format!(".slpp re-read has {} rows", re2.frames.len())));
	}
	// the .slpp reader's own skip-frames option on the full archive
	let pf = rt::slpp_write(full, c.comp).expect_ok("peppi::write(full)").map_err(|f| f.with_file("slp", &bytes))?;
	let full2 = rt::slpp_read(&pf, false).expect_ok("peppi::read(full)").map_err(|f| f.with_file("slpp", &pf))?;
	let pskip = rt::slpp_read(&pf, true).expect_ok("peppi::read(skip_frames)").map_err(|f| f.with_file("slpp", &pf).with_detail(detail.clone()))?;
	diff_games(&pskip, &full2, &CmpOpts { frames: false, hash: true, quirks: true }).map_err(|e| fail("slpp_skip", format!(".slpp skip-frames vs full: {}", e)))?;
	diff_views(&view_immutable(&pskip.frames), &view_model(&empty)).map_err(|e| fail("slpp_empty_frames", format!(".slpp skip-frames frame columns: {}", e)))?;
	// "the result can itself be written out and re-read" for the .slpp reader's skip-frames game too:
	// as .slp (this game keeps its Gecko codes) and as .slpp
	let w3 = rt::slp_write(&pskip).expect_ok("slippi::write(.slpp skip game)").map_err(|f| f.with_file("slp", &bytes).with_detail(detail.clone()))?;
	for sk in [false, true] {
		let re3 = rt::slp_read(&w3, sk, false).expect_ok("slippi::read(written .slpp skip game)").map_err(|f| f.with_file("slp", &bytes).with_file("written.slp", &w3).with_detail(detail.clone()))?;
		same_sem(&re3, &full2).map_err(|e| fail("slpp_skip_written", format!(".slp written from the .slpp skip-frames game, re-read (skip_frames={}): {}", sk, e)))?;
		if re3.frames.len() != 0 {
			return Err(fail("slpp_skip_written_rows", format!("re-read has {} rows", re3.frames.len())));
		}
	}
	let p3 = rt::slpp_write(pskip, c.comp).expect_ok("peppi::write(.slpp skip game)").map_err(|f| f.with_file("slp", &bytes).with_detail(detail.clone()))?;
	let re4 = rt::slpp_read(&p3, false).expect_ok("peppi::read(written .slpp skip game)").map_err(|f| f.with_file("slp", &bytes).with_file("slpp", &p3).with_detail(detail.clone()))?;
	diff_games(&re4, &full2, &CmpOpts { frames: false, hash: true, quirks: true }).map_err(|e| fail("slpp_skip_rewritten", format!(".slpp written from the .slpp skip-frames game: {}", e)))?;
	Ok(())
}

fn forced(i: usize) -> Case {
	let minors = spec::all_minors();
	let (ma, mi) = minors[i % minors.len()];
	let var = i / minors.len();
	let mut m = crate::gen::simple_model((ma, mi, 0), &[(0, false), (1, var % 2 == 0)], 3, i as u64, crate::gen::Pattern::Random, 1 + (var % 2) as u8, var % 3 != 0);
	if spec::gte((ma, mi), (3, 3)) && var % 2 == 0 {
		m.gecko = Some(crate::model::Gecko { bytes: vec![7u8; 512], actual: 100 + i as u32 % 400 });
	}
	Case { m, hash: var % 2 == 1, comp: Comp::ALL[i % 3], pad: 0 }
}

/// distances between Game Start and Game End that cross 8 KiB .. 16 MiB (not multiples of any of them)
const HUGE_PADS: [usize; 6] = [8_193, 65_537, 300_001, (1 << 20) + 5, (8 << 20) + 4_321, (16 << 20) + 17];
fn huge(i: usize) -> Case {
	let pad = HUGE_PADS[i % HUGE_PADS.len()];
	let var = i / HUGE_PADS.len();
	let v = [(0, 1, 0), (3, 16, 0), (2, 0, 1)][var % 3];
	let m = crate::gen::simple_model(v, &[(0, false), (1, false)], 2, i as u64 + 3, crate::gen::Pattern::Random, 1 + (var % 2) as u8, var % 2 == 0);
	Case { m, hash: var % 2 == 0, comp: Comp::ALL[i % 3], pad }
}

pub fn case(ctx: &Ctx, kind: &str, params: &Value, counting: bool) -> Result<(), Fail> {
	match kind {
		"forced" => check(ctx, &forced(params["i"].as_u64().unwrap_or(0) as usize), "forced", counting),
		"chain" => chain_case(ctx, &dna_param(params), counting),
		"huge" => check(ctx, &huge(params["i"].as_u64().unwrap_or(0) as usize), "huge", counting),
		_ => check(ctx, &gen_case(&dna_param(params), &cfg(ctx)), "dna", counting),
	}
}

/// A generated sequence of format hops that includes skip-frames reads of both formats: start, end and
/// metadata equal the original after every hop and every intermediate game can be written (chain.rs).
fn chain_case(ctx: &Ctx, dna: &[u8], counting: bool) -> Result<(), Fail> {
	let mut d = Dna::new(dna);
	let ops = super::chain::gen_ops(&mut d, true, 6);
	let mut c = cfg(ctx);
	c.finished = true;
	c.max_frames = c.max_frames.min(30);
	let m = super::gen_model_mixed(&mut d, &c, true);
	let bytes = m.encode();
	if counting {
		ctx.eval();
		ctx.class("chain");
		for o in &ops {
			ctx.class(&format!("hop:{}", o.name().split('(').next().unwrap_or("")));
		}
		if ops.iter().any(|o| o.lossy()) {
			ctx.class("chain_with_skip_hop");
			let mut h = bytes.clone();
			h.extend(ops.iter().flat_map(|o| o.name().into_bytes()));
			ctx.nontrivial(rt::hash_bytes(&h));
		}
		ctx.sample_k("chain", 4, || json!({"ops": ops.iter().map(|o| o.name()).collect::<Vec<_>>(), "model": m.summary()}));
	}
	super::chain::run_chain(&bytes, &ops, &m.summary())
}

fn cfg(ctx: &Ctx) -> crate::gen::GenCfg {
	let mut c = cfg_for(ctx);
	c.max_frames = ctx.n(20, 120);
	c
}

pub fn run(ctx: &Ctx) -> usize {
	ctx.set_rule("finished generated replays (single or doubled Game End last; all 784 minor versions enumerated x {gecko, doubled end, no metadata} variants, plus random models) x {hash off, on} x {.slp, .slpp with each compression}; oracle: skip-frames result has start, end, metadata equal to the full read (bit-exact), zero rows and exactly the empty column set of the version/ports, can be written by both writers and re-read to the same start/end/metadata with zero rows; the .slpp reader's skip-frames option likewise; non-trivial = >=1 frame to skip and one of {gecko, doubled end, no metadata, hash on}; distinct by xxh3(file, hash flag, compression)");
	let mut violations = 0;
	let n = spec::all_minors().len() * ctx.n(2, 6);
	if run_enum(ctx, "forced", n, |i| json!({ "i": i }), |i| check(ctx, &forced(i), "forced", true)).is_some() {
		violations += 1;
	}
	let cfg = cfg(ctx);
	if run_dna(ctx, "dna", ctx.n(8_000, 400_000), dna_max(ctx), |dna, counting| check(ctx, &gen_case(dna, &cfg), "dna", counting)).is_some() {
		violations += 1;
	}
	if violations == 0 && run_enum(ctx, "huge", HUGE_PADS.len() * ctx.n(2, 6), |i| json!({ "i": i }), |i| check(ctx, &huge(i), "huge", true)).is_some() {
		violations += 1;
	}
	if violations == 0 && run_dna(ctx, "chain", ctx.n(4_000, 150_000), dna_max(ctx), |dna, counting| chain_case(ctx, dna, counting)).is_some() {
		violations += 1;
	}
	violations
}
