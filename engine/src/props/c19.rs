//! C19 — name fields decode as Shift-JIS up to the first NUL; normalisation is exact.

use std::sync::atomic::Ordering;

use serde_json::{json, Value};

use super::*;
use crate::gen::{gen_ports, gen_start, simple_model, Pattern};
use crate::rt::{self, run_dna, run_enum, Out};
use crate::spec::gs;
use peppi::game::shift_jis::MeleeString;

/// arithmetic expectation for the constructed subset (None = byte sequence outside the subset)
fn arith_decode(bytes: &[u8]) -> Option<String> {
	let mut s = String::new();
	let mut i = 0;
	while i < bytes.len() {
		let b = bytes[i];
		match b {
			0x01..=0x7F => {
				s.push(b as char);
				i += 1;
			}
			0xA1..=0xDF => {
				s.push(char::from_u32(0xFF61 + (b as u32 - 0xA1)).unwrap());
				i += 1;
			}
			0x82 | 0x83 => {
				let t = *bytes.get(i + 1)?;
				let c = match (b, t) {
					(0x82, 0x4F..=0x58) => 0xFF10 + (t as u32 - 0x4F),
					(0x82, 0x60..=0x79) => 0xFF21 + (t as u32 - 0x60),
					(0x82, 0x81..=0x9A) => 0xFF41 + (t as u32 - 0x81),
					(0x82, 0x9F..=0xF1) => 0x3041 + (t as u32 - 0x9F),
					(0x83, 0x40..=0x7E) => 0x30A1 + (t as u32 - 0x40),
					(0x83, 0x80..=0x96) => 0x30A1 + (t as u32 - 0x41),
					_ => return None,
				};
				s.push(char::from_u32(c).unwrap());
				i += 2;
			}
			_ => return None,
		}
	}
	Some(s)
}

fn reference(field: &[u8]) -> Result<String, ()> {
	let cut = field.iter().position(|b| *b == 0).unwrap_or(field.len());
	let prefix = &field[..cut];
	if let Some(s) = arith_decode(prefix) {
		return Ok(s);
	}
	match encoding_rs::SHIFT_JIS.decode_without_bom_handling_and_without_replacement(prefix) {
		Some(c) => Ok(c.to_string()),
		None => Err(()),
	}
}

fn ref_norm(s: &str) -> String {
	s.chars()
		.map(|c| match c as u32 {
			0xFF01..=0xFF5E => char::from_u32(c as u32 - 0xFF01 + 0x21).unwrap(),
			0x3000 => ' ',
			0x2019 => '\'',
			0x201D => '"',
			_ => c,
		})
		.collect()
}

fn gen_field(d: &mut Dna, width: usize) -> (Vec<u8>, &'static str) {
	let mut f = vec![0u8; width];
	let mode = d.u8();
	let kind = match mode {
		0..=99 => "constructed",
		100..=159 => "random_bytes",
		160..=199 => "invalid_injected",
		200..=229 => "no_nul",
		_ => "two_byte_any",
	};
	match kind {
		"random_bytes" => {
			for b in f.iter_mut() {
				*b = d.u8();
			}
		}
		"two_byte_any" => {
			let mut i = 0;
			while i + 1 < width {
				let lead = [0x81u8, 0x84, 0x88, 0x89, 0x8F, 0x90, 0x98, 0x9F, 0xE0, 0xEA, 0xED, 0xF0, 0xFA, 0xFC][d.below(14)];
				f[i] = lead;
				f[i + 1] = d.u8();
				i += 2;
				if d.u8() > 200 {
					break;
				}
			}
		}
		_ => {
			let len = if kind == "no_nul" { width } else { d.below(width + 1) };
			let mut i = 0;
			while i < len {
				let k = d.u8();
				if k < 110 || i + 2 > len {
					f[i] = if k % 2 == 0 { 0x20 + (k % 0x5F) } else { 0xA1 + (k % 0x3F) };
					i += 1;
				} else {
					let (a, lo, hi) = [(0x82u8, 0x4Fu8, 0x58u8), (0x82, 0x60, 0x79), (0x82, 0x81, 0x9A), (0x82, 0x9F, 0xF1), (0x83, 0x40, 0x7E), (0x83, 0x80, 0x96)][(k as usize) % 6];
					f[i] = a;
					f[i + 1] = lo + (d.u8() % (hi - lo + 1));
					i += 2;
				}
			}
			if len < width {
				f[len] = 0;
				for b in f[len + 1..].iter_mut() {
					*b = d.u8(); // garbage after the NUL
				}
			}
			if kind == "invalid_injected" && len > 0 {
				let pos = d.below(len);
				f[pos] = [0x80u8, 0xA0, 0xFD, 0xFE, 0xFF, 0x81, 0x9F, 0xE0][d.below(8)];
				if f[pos] >= 0x81 && f[pos] != 0xA0 && f[pos] < 0xFD && pos + 1 < width {
					f[pos + 1] = [0x00u8, 0x7F, 0x20, 0xFD, 0xFF, 0x3F][d.below(6)]; // illegal trail
				}
			}
		}
	}
	(f, kind)
}

fn check_field(ctx: &Ctx, field: &[u8], kind: &str, counting: bool) -> Result<(), Fail> {
	let want = reference(field);
	let cut = field.iter().position(|b| *b == 0);
	if counting {
		ctx.eval();
		ctx.class(&format!("field:{}", kind));
		ctx.class(&format!("width={}", field.len()));
		ctx.class(if want.is_ok() { "decodes" } else { "invalid" });
		let garbage_after = cut.map_or(false, |c| field[c + 1..].iter().any(|b| *b != 0));
		let two_byte = want.as_ref().map_or(false, |s| s.chars().any(|c| c as u32 > 0xFF));
		if garbage_after {
			ctx.class("garbage_after_nul");
		}
		if garbage_after || two_byte || want.is_err() {
			ctx.nontrivial(rt::hash_bytes(field));
		}
		ctx.sample_k("field", 5, || json!({"bytes": rt::hex(field), "expect": want.clone().map_err(|_| "Err")}));
	}
	let d = json!({"field": rt::hex(field)});
	// decoding is a pure function of the field: whatever was decoded just before (successfully or
	// not) must not influence it. The predecessor is derived from the field so a replay is self-contained.
	match rt::hash_bytes(field) % 4 {
		0 => {
			// a valid character followed by a dangling lead byte: rejected
			let _ = rt::guard(|| MeleeString::try_from(&[0x83u8, 0x41, 0x61, 0x82, 0x00][..]));
		}
		1 => {
			let mut p = vec![0x82u8, 0x65, 0x82, 0x8f, 0x82, 0x98];
			p.extend(field.iter().rev().take(4));
			p.push(0x81);
			let _ = rt::guard(|| MeleeString::try_from(&p[..]));
		}
		2 => {
			let _ = rt::guard(|| MeleeString::try_from(&[0x82u8, 0x65, 0x82, 0x8f, 0x82, 0x98, 0x00][..]));
		}
		_ => {}
	}
	let got = rt::guard(|| MeleeString::try_from(field));
	match (&want, &got) {
		(Ok(w), Out::Ok(g)) if g.as_str() == w => {}
		(Err(()), Out::Err(_)) => {}
		(_, Out::Panic(p)) => return Err(Fail::new("op=sjis panic", p.clone()).with_detail(d)),
		_ => {
			return Err(Fail::new(
				"op=sjis decode",
				format!("MeleeString::try_from({}) = {:?}, expected {:?}", rt::hex(field), match &got { Out::Ok(g) => Ok(g.as_str().to_string()), Out::Err(e) => Err(e.clone()), _ => unreachable!() }, want),
			)
			.with_detail(d))
		}
	}
	// metamorphic: bytes after the first NUL never matter
	if let Some(c) = cut {
		let mut f2 = field.to_vec();
		for (k, b) in f2[c + 1..].iter_mut().enumerate() {
			*b = (*b ^ 0xA5).wrapping_add(k as u8) | 1;
		}
		let got2 = rt::guard(|| MeleeString::try_from(&f2[..]));
		let same = match (&got, &got2) {
			(Out::Ok(a), Out::Ok(b)) => a == b,
			(Out::Err(_), Out::Err(_)) => true,
			_ => false,
		};
		if !same {
			return Err(Fail::new("op=sjis after_nul", format!("bytes after the NUL changed the result for {}", rt::hex(field))).with_detail(d));
		}
	}
	// normalisation of the decoded string
	if let Out::Ok(g) = &got {
		let n = g.to_normalized();
		if n != ref_norm(g.as_str()) {
			return Err(Fail::new("op=normalize", format!("to_normalized({:?}) = {:?}", g.as_str(), n)).with_detail(d));
		}
		if MeleeString(n.clone()).to_normalized() != n {
			return Err(Fail::new("op=normalize idempotent", format!("normalisation not idempotent on {:?}", n)).with_detail(d));
		}
	}
	Ok(())
}

/// all scalar values in [lo, hi): normalisation vs reference, and idempotence
fn norm_block(i: usize) -> Result<(), Fail> {
	let lo = (i as u32) << 12;
	for c in lo..lo + 0x1000 {
		if let Some(ch) = char::from_u32(c) {
			let s = MeleeString(ch.to_string());
			let n = s.to_normalized();
			let want = ref_norm(&ch.to_string());
			if n != want {
				return Err(Fail::new("op=normalize char", format!("U+{:04X} normalises to {:?}, expected {:?}", c, n, want)));
			}
			if MeleeString(n.clone()).to_normalized() != n {
				return Err(Fail::new("op=normalize idempotent", format!("U+{:04X}: not idempotent", c)));
			}
		}
	}
	Ok(())
}

/// the fields inside a generated Game Start block, read through slippi::read
fn start_case(ctx: &Ctx, dna: &[u8], counting: bool) -> Result<(), Fail> {
	let mut d = Dna::new(dna);
	let ver = [(1, 3, 0), (3, 9, 0), (3, 16, 0), (3, 11, 2), (2, 0, 0), (3, 12, 0)][d.below(6)];
	let ports = gen_ports(&mut d);
	let mut start = gen_start(&mut d, ver, &ports, None);
	let target_port = ports[d.below(ports.len())].port as usize;
	let which = d.below(3);
	let (off, width, name) = match which {
		0 => (gs::NAME_TAG + 16 * target_port, 16, "name_tag"),
		1 => (gs::NP_NAME + 31 * target_port, 31, "netplay.name"),
		_ => (gs::NP_CODE + 10 * target_port, 10, "netplay.code"),
	};
	if off + width > start.len() {
		return Ok(());
	}
	let (field, kind) = gen_field(&mut d, width);
	start[off..off + width].copy_from_slice(&field);
	let mut m = simple_model(ver, &ports.iter().map(|p| (p.port, p.ics)).collect::<Vec<_>>(), 1, 3, Pattern::Zero, 1, false);
	m.start = start;
	let bytes = m.encode();
	let want = reference(&field);
	if counting {
		ctx.eval();
		ctx.class(&format!("start_block:{}", name));
		ctx.class(&format!("start_block:{}", kind));
		if want.is_err() || field.iter().position(|b| *b == 0).map_or(false, |c| field[c + 1..].iter().any(|b| *b != 0)) {
			ctx.nontrivial(rt::hash_bytes(&bytes));
		}
	}
	let got = rt::slp_read_default(&bytes);
	let d = json!({"field": rt::hex(&field), "which": name, "port": target_port});
	match (&want, got) {
		(Ok(w), Out::Ok(g)) => {
			let p = g.start.players.iter().find(|p| p.port as usize == target_port).ok_or_else(|| Fail::new("op=sjis start player", "player missing"))?;
			let s = match which {
				0 => p.name_tag.as_ref().map(|s| s.as_str().to_string()),
				1 => p.netplay.as_ref().map(|n| n.name.as_str().to_string()),
				_ => p.netplay.as_ref().map(|n| n.code.as_str().to_string()),
			};
			if s.as_deref() != Some(w.as_str()) {
				return Err(Fail::new(format!("op=sjis start {}", name), format!("{} = {:?}, expected {:?}", name, s, w)).with_file("slp", &bytes).with_detail(d));
			}
			Ok(())
		}
		(Err(()), Out::Err(_)) => Ok(()),
		(Err(()), Out::Ok(_)) => Err(Fail::new(format!("op=sjis start {} accepted", name), "invalid Shift-JIS field accepted").with_file("slp", &bytes).with_detail(d)),
		(Ok(_), Out::Err(e)) => Err(Fail::new(format!("op=sjis start {} rejected", name), format!("valid field rejected: {}", e)).with_file("slp", &bytes).with_detail(d)),
		(_, Out::Panic(p)) => Err(Fail::new("op=sjis start panic", p).with_file("slp", &bytes).with_detail(d)),
	}
}

fn dna_field(dna: &[u8]) -> (Vec<u8>, &'static str) {
	let mut d = Dna::new(dna);
	let width = [16usize, 31, 10][d.below(3)];
	gen_field(&mut d, width)
}

pub fn case(ctx: &Ctx, kind: &str, params: &Value, counting: bool) -> Result<(), Fail> {
	match kind {
		"norm_block" => norm_block(params["i"].as_u64().unwrap_or(0) as usize),
		"start" => start_case(ctx, &dna_param(params), counting),
		"field" => check_field(ctx, &rt::unhex(params["field"].as_str().unwrap_or("")), "fixed", counting),
		_ => {
			let (f, k) = dna_field(&dna_param(params));
			check_field(ctx, &f, k, counting)
		}
	}
}

pub fn run(ctx: &Ctx) -> usize {
	ctx.set_rule("16/31/10-byte name fields: constructed one- and two-byte Shift-JIS text (ASCII, half-width katakana, arithmetic JIS rows for hiragana/katakana/full-width alphanumerics), NUL at every position, garbage after the NUL, no NUL, injected invalid sequences, arbitrary lead/trail pairs, random bytes; passed to MeleeString::try_from and placed in generated Game Start blocks (name tag >= 1.3, netplay name/code >= 3.9) read through slippi::read; oracle: arithmetic expectation for the constructed subset, strict encoding_rs decode of the prefix before the first NUL otherwise, Err for invalid, result independent of bytes after the NUL; normalisation: ALL Unicode scalar values against a table-free reimplementation + idempotence; non-trivial = NUL followed by non-zero bytes, a two-byte sequence, or an invalid field; distinct by field bytes");
	ctx.assume("encoding_rs's strict Shift_JIS decoder defines 'Shift-JIS' outside the arithmetic subset");
	let mut violations = 0;
	// every NUL position x width, with garbage after
	let mut fixed: Vec<Vec<u8>> = Vec::new();
	for w in [16usize, 31, 10] {
		for nul in 0..=w {
			let mut f: Vec<u8> = (0..w).map(|i| if i % 3 == 2 { 0xB1 } else { b'A' + (i % 26) as u8 }).collect();
			if nul < w {
				f[nul] = 0;
				for (k, b) in f[nul + 1..].iter_mut().enumerate() {
					*b = [0x81u8, 0xFF, 0x00, 0x80, 0x82][k % 5];
				}
			}
			fixed.push(f);
		}
	}
	// lone lead byte at the very end, lead + illegal trail, 0xA0, 0xFD..0xFF, 0x80
	for bad in [vec![b'a', 0x82], vec![0x82, 0x00, b'a'], vec![0x81, 0x7F], vec![0xA0], vec![0xFD], vec![0xFE], vec![0xFF], vec![0x80], vec![0x82, 0xA0, 0x83], vec![0xE0, 0x20]] {
		let mut f = bad.clone();
		f.resize(16, 0);
		fixed.push(f);
		let mut g = vec![b'x'; 10 - bad.len()];
		g.extend_from_slice(&bad);
		fixed.push(g); // invalid sequence at the end of a field without NUL
	}
	if run_enum(ctx, "field", fixed.len(), |i| json!({"field": rt::hex(&fixed[i])}), |i| check_field(ctx, &fixed[i], "fixed", true)).is_some() {
		violations += 1;
	}
	if run_enum(ctx, "norm_block", 0x110, |i| json!({ "i": i }), norm_block).is_some() {
		violations += 1;
	} else {
		ctx.evals(0x110000 - 0x800);
		ctx.put("normalisation_scalar_values_checked", json!(0x110000 - 0x800));
		ctx.exhaustive.store(true, Ordering::Relaxed);
		ctx.put("exhaustive_parts", json!(["normalisation over all 1,112,064 Unicode scalar values", "NUL position 0..=width for each of the three widths"]));
	}
	if run_dna(ctx, "dna", ctx.n(200_000, 10_000_000), 160, |dna, counting| {
		let (f, k) = dna_field(dna);
		check_field(ctx, &f, k, counting)
	})
	.is_some()
	{
		violations += 1;
	}
	if run_dna(ctx, "start", ctx.n(30_000, 1_500_000), 1024, |dna, counting| start_case(ctx, dna, counting)).is_some() {
		violations += 1;
	}
	violations
}
