//! C15 — rollback de-duplication marks all but the first/last occurrence of each frame id.

use arrow2::array::PrimitiveArray;
use serde_json::{json, Value};

use super::*;
use crate::rt::{self, run_dna, run_enum};
use peppi::frame::{immutable::Frame, Rollbacks};

fn frame_of(ids: &[i32]) -> Frame {
	Frame { id: PrimitiveArray::from_vec(ids.to_vec()), ports: vec![], start: None, end: None, item_offset: None, item: None }
}

fn naive(ids: &[i32], first: bool) -> Vec<bool> {
	(0..ids.len())
		.map(|i| if first { ids[..i].contains(&ids[i]) } else { ids[i + 1..].contains(&ids[i]) })
		.collect()
}

fn check_ids(ctx: &Ctx, ids: &[i32], label: &str, counting: bool) -> Result<(), Fail> {
	let repeated = {
		let mut s = ids.to_vec();
		s.sort();
		s.windows(2).any(|w| w[0] == w[1])
	};
	if counting {
		ctx.eval();
		ctx.class(label);
		ctx.class(if repeated { "has_repeats" } else { "no_repeats" });
		if ids.is_empty() {
			ctx.class("empty");
		}
		if repeated {
			let b: Vec<u8> = ids.iter().flat_map(|x| x.to_le_bytes()).collect();
			ctx.nontrivial(rt::hash_bytes(&b));
			// non-adjacent repeat?
			if (0..ids.len()).any(|i| ids[i + 1..].iter().skip(1).any(|x| *x == ids[i]) && ids.get(i + 1) != Some(&ids[i])) {
				ctx.class("non_adjacent_repeat");
			}
		}
		ctx.sample_k(label, 3, || json!({"ids": &ids[..ids.len().min(24)], "len": ids.len()}));
	}
	let f = frame_of(ids);
	let detail = json!({ "ids": ids });
	for (mode, first) in [(Rollbacks::ExceptFirst, true), (Rollbacks::ExceptLast, false)] {
		let got = rt::guard(|| Ok::<_, String>(f.rollbacks(mode))).expect_ok("Frame::rollbacks").map_err(|f| f.with_detail(detail.clone()))?;
		let want = naive(ids, first);
		if got != want {
			let i = (0..want.len().min(got.len())).find(|&i| got[i] != want[i]).unwrap_or(want.len().min(got.len()));
			return Err(Fail::new(
				format!("op=rollbacks {:?}", mode),
				format!("{:?}: mask differs at row {} (len {} vs {}): got {:?} want {:?}", mode, i, got.len(), want.len(), got.get(i), want.get(i)),
			)
			.with_detail(detail.clone()));
		}
		// derived facts of the statement
		let distinct: std::collections::HashSet<i32> = ids.iter().copied().collect();
		if got.iter().filter(|b| !**b).count() != distinct.len() {
			return Err(Fail::new("op=rollbacks unmarked_count", "unmarked rows != distinct ids").with_detail(detail.clone()));
		}
	}
	Ok(())
}

fn gen_ids(dna: &[u8], max_len: usize) -> Vec<i32> {
	let mut d = Dna::new(dna);
	let shape = d.u8();
	let n = match d.u8() {
		0..=9 => 0,
		10..=29 => 1,
		30..=200 => d.below(40),
		_ => d.below(max_len + 1),
	};
	let base = spec::FIRST_FRAME
		+ match d.u8() {
			0..=199 => 0,
			200..=239 => d.below(1 << 10) as i32,
			253..=255 => d.below(1 << 26) as i32,
			_ => d.below(1 << 20) as i32,
		};
	let mut ids = Vec::with_capacity(n);
	let mut cur = base;
	for i in 0..n {
		match shape {
			0..=39 => cur = base + i as i32,                                  // monotone
			40..=59 => cur = base,                                             // all equal
			60..=79 => cur = base + (n - 1 - i) as i32,                        // strictly decreasing
			80..=119 => cur = base + d.below(8) as i32,                        // arbitrary small set, non-adjacent repeats
			_ => {
				// recorder-like: +1, repeats x2..x6, rollbacks, gaps
				if i > 0 {
					match d.u8() {
						0..=149 => cur += 1,
						150..=189 => {}
						190..=229 => cur = (cur - d.below(7) as i32).max(spec::FIRST_FRAME),
						_ => cur += 2 + d.below(50) as i32,
					}
				}
			}
		}
		ids.push(cur);
	}
	ids
}

const FIXED: [&[i32]; 12] = [
	&[],
	&[-123],
	&[-123, -123],
	&[-123, -122, -123],
	&[-123, -122, -121, -122, -121, -120],
	&[5, 5, 5, 5, 5, 5],
	&[-120, -121, -122, -123],
	&[-123, 1000, -123, 1000],
	&[0, 1, 2, 2, 3, 3, 3, 4],
	&[10, 9, 10, 9, 10],
	&[-123, -122, -121],
	&[7, 7],
];

pub fn case(ctx: &Ctx, kind: &str, params: &Value, counting: bool) -> Result<(), Fail> {
	match kind {
		"fixed" | "ids" => {
			let ids: Vec<i32> = params["ids"].as_array().map(|a| a.iter().map(|x| x.as_i64().unwrap_or(0) as i32).collect()).unwrap_or_default();
			check_ids(ctx, &ids, "fixed", counting)
		}
		"replay_game" => game_case(ctx, &dna_param(params), counting),
		_ => check_ids(ctx, &gen_ids(&dna_param(params), ctx.n(300, 3000)), "dna", counting),
	}
}

/// ids obtained from a generated >= 2.2 replay read by peppi
fn game_case(ctx: &Ctx, dna: &[u8], counting: bool) -> Result<(), Fail> {
	let mut m = model_from_dna(dna, &cfg_for(ctx));
	if !spec::gte(m.v(), (2, 2)) {
		return Ok(());
	}
	// an offline / already finalised recording: every Frame End names its own frame as the latest finalised
	// one (>= 3.7), although the id sequence may still contain repeats; and the lagging variant (id - k)
	let sel = dna.first().copied().unwrap_or(0) % 4;
	if sel <= 1 && spec::gte(m.v(), (3, 7)) {
		for f in m.frames.iter_mut() {
			let id = f.id;
			if let Some(e) = f.end.as_mut() {
				if e.len() >= 4 {
					e[..4].copy_from_slice(&(id - sel as i32 * 2).to_be_bytes());
				}
			}
		}
	}
	let bytes = m.encode();
	let g = rt::slp_read_default(&bytes).expect_ok("slippi::read")?;
	let ids: Vec<i32> = g.frames.id.values().to_vec();
	let want_ids: Vec<i32> = m.frames.iter().map(|f| f.id).collect();
	if ids != want_ids {
		return Err(Fail::new("op=rollbacks ids", "id column differs from the history").with_file("slp", &bytes));
	}
	for (mode, first) in [(Rollbacks::ExceptFirst, true), (Rollbacks::ExceptLast, false)] {
		let got = rt::guard(|| Ok::<_, String>(g.frames.rollbacks(mode))).expect_ok("Frame::rollbacks").map_err(|f| f.with_file("slp", &bytes))?;
		if got != naive(&ids, first) {
			return Err(Fail::new(format!("op=rollbacks {:?}", mode), "mask differs on a parsed game").with_file("slp", &bytes));
		}
	}
	if counting {
		ctx.eval();
		ctx.class("from_replay");
		if sel == 0 && spec::gte(m.v(), (3, 7)) {
			ctx.class("from_replay_latest_finalized_equals_id");
		}
		if m.frames.windows(2).any(|w| w[1].id <= w[0].id) {
			ctx.class("from_replay_with_rollback");
			ctx.nontrivial(rt::hash_bytes(&bytes));
		}
	}
	Ok(())
}

pub fn run(ctx: &Ctx) -> usize {
	ctx.set_rule("frame-id sequences (length 0..300 quick / 0..3000 thorough; monotone, all-equal, strictly decreasing, arbitrary small sets with non-adjacent repeats, recorder-like with repeats x2..x6, rollbacks and gaps; ids in [-123, -123+2^20], some to 2^26) built directly as a Frame, plus id columns of generated >= 2.2 replays; oracle: naive O(n^2) definition for both modes, mask length == rows, unmarked rows == distinct ids; non-trivial = sequence has a repeated id; distinct by the id sequence");
	ctx.assume("ids are >= -123 (the property's domain); ids above -123+2^26 are not explored (the implementation allocates O(max id))");
	let mut violations = 0;
	if run_enum(ctx, "fixed", FIXED.len(), |i| json!({ "ids": FIXED[i] }), |i| check_ids(ctx, FIXED[i], "fixed", true)).is_some() {
		violations += 1;
	}
	let maxlen = ctx.n(300, 3000);
	if run_dna(ctx, "dna", ctx.n(100_000, 5_000_000), 1024, |dna, counting| check_ids(ctx, &gen_ids(dna, maxlen), "dna", counting)).is_some() {
		violations += 1;
	}
	if run_dna(ctx, "replay_game", ctx.n(20_000, 1_000_000), dna_max(ctx), |dna, counting| game_case(ctx, dna, counting)).is_some() {
		violations += 1;
	}
	violations
}
