//! C14 — the Arrow struct array has the per-version schema and converts back losslessly.

use arrow2::datatypes::{DataType, Field};
use serde_json::{json, Value};

use super::*;
use crate::access::{diff_views, view_arrow, view_immutable};
use crate::rt::{self, run_dna, run_enum};
use crate::spec::{Kind, Ty};
use peppi::frame::immutable::Frame;
use peppi::game::immutable::Game;
use peppi::game::port_occupancy;

fn dt(t: Ty) -> DataType {
	match t {
		Ty::U8 => DataType::UInt8,
		Ty::I8 => DataType::Int8,
		Ty::U16 => DataType::UInt16,
		Ty::U32 => DataType::UInt32,
		Ty::I32 => DataType::Int32,
		Ty::F32 => DataType::Float32,
	}
}

/// struct type of one event kind for version v, built from the spec leaves (nesting by '.')
fn kind_struct(kind: Kind, v: (u8, u8)) -> DataType {
	let mut fields: Vec<Field> = Vec::new();
	let mut cur_group: Option<(String, Vec<Field>)> = None;
	let flush = |fields: &mut Vec<Field>, g: &mut Option<(String, Vec<Field>)>| {
		if let Some((name, fs)) = g.take() {
			fields.push(Field::new(name, DataType::Struct(fs), false));
		}
	};
	for lf in spec::leaves(kind).filter(|l| spec::gte(v, l.since)) {
		match lf.path.split_once('.') {
			None => {
				flush(&mut fields, &mut cur_group);
				fields.push(Field::new(lf.path, dt(lf.ty), false));
			}
			Some((grp, leaf)) => {
				if cur_group.as_ref().map_or(true, |(n, _)| n != grp) {
					flush(&mut fields, &mut cur_group);
					cur_group = Some((grp.to_string(), Vec::new()));
				}
				cur_group.as_mut().unwrap().1.push(Field::new(leaf, dt(lf.ty), false));
			}
		}
	}
	flush(&mut fields, &mut cur_group);
	DataType::Struct(fields)
}

pub fn expected_schema(v: (u8, u8), ports: &[(u8, bool)]) -> DataType {
	let data = || DataType::Struct(vec![Field::new("pre", kind_struct(Kind::Pre, v), false), Field::new("post", kind_struct(Kind::Post, v), false)]);
	let port_fields: Vec<Field> = ports
		.iter()
		.map(|(p, ics)| {
			let mut f = vec![Field::new("leader", data(), false)];
			if *ics {
				f.push(Field::new("follower", data(), false));
			}
			Field::new(format!("P{}", p + 1), DataType::Struct(f), false)
		})
		.collect();
	let mut fields = vec![Field::new("id", DataType::Int32, false), Field::new("ports", DataType::Struct(port_fields), false)];
	if spec::gte(v, (2, 2)) {
		fields.push(Field::new("start", kind_struct(Kind::FrameStart, v), false));
	}
	if spec::gte(v, (3, 0)) {
		// Frame End has no fields before 3.7 and Arrow cannot express an empty struct: no `end` child then
		if spec::gte(v, (3, 7)) {
			fields.push(Field::new("end", kind_struct(Kind::FrameEnd, v), false));
		}
		fields.push(Field::new("item", DataType::List(Box::new(Field::new("item", kind_struct(Kind::Item, v), false))), false));
	}
	DataType::Struct(fields)
}

/// names, nesting, order and primitive types (nullability flags, field metadata and the name of a list's
/// inner field are not part of the property)
fn same_shape(a: &DataType, b: &DataType) -> bool {
	match (a, b) {
		(DataType::Struct(x), DataType::Struct(y)) => x.len() == y.len() && x.iter().zip(y).all(|(f, g)| f.name == g.name && same_shape(&f.data_type, &g.data_type)),
		(DataType::List(f), DataType::List(g)) | (DataType::LargeList(f), DataType::LargeList(g)) => same_shape(&f.data_type, &g.data_type),
		(x, y) => x == y,
	}
}

fn describe_dt(d: &DataType, indent: usize, out: &mut String) {
	match d {
		DataType::Struct(fs) => {
			for f in fs {
				out.push_str(&format!("{}{}\n", " ".repeat(indent), f.name));
				describe_dt(&f.data_type, indent + 1, out);
			}
		}
		DataType::List(f) => {
			out.push_str(&format!("{}[list]\n", " ".repeat(indent)));
			describe_dt(&f.data_type, indent + 1, out);
		}
		other => out.push_str(&format!("{}:{:?}\n", " ".repeat(indent), other)),
	}
}

fn first_schema_diff(a: &DataType, b: &DataType) -> String {
	let (mut sa, mut sb) = (String::new(), String::new());
	describe_dt(a, 0, &mut sa);
	describe_dt(b, 0, &mut sb);
	for (i, (x, y)) in sa.lines().zip(sb.lines()).enumerate() {
		if x != y {
			return format!("line {}: got `{}` expected `{}`", i, x.trim(), y.trim());
		}
	}
	format!("got {} schema lines, expected {}", sa.lines().count(), sb.lines().count())
}

fn check(ctx: &Ctx, m: &ModelGame, label: &str, counting: bool) -> Result<(), Fail> {
	let bytes = m.encode();
	super::sibling_history(m, &bytes);
	let v = m.v();
	if counting {
		ctx.eval();
		let f = classify(ctx, m);
		ctx.class(label);
		if f.frames >= 1 && (f.ics || f.absent || f.items > 0) {
			ctx.nontrivial(rt::hash_bytes(&bytes));
		}
		ctx.sample_k(label, 4, || m.summary());
	}
	let fail = |sig: &str, msg: String| Fail::new(format!("op=arrow {}", sig), format!("v{}.{}: {}", v.0, v.1, msg)).with_file("slp", &bytes).with_detail(m.summary());
	let g = rt::slp_read_default(&bytes).expect_ok("slippi::read").map_err(|f| f.with_file("slp", &bytes))?;
	let g_cols = rt::slp_read_default(&bytes).expect_ok("slippi::read").map_err(|f| f.with_file("slp", &bytes))?;
	let version = g.start.slippi.version;
	let occ = port_occupancy(&g.start);
	let Game { start, end, frames, metadata, gecko_codes, hash, quirks } = g;
	let rows = frames.len();
	let arr = match rt::guard(|| Ok::<_, String>(frames.into_struct_array(version, &occ))) {
		rt::Out::Ok(a) => a,
		rt::Out::Panic(p) => return Err(fail(&format!("export panic~{}", rt::panic_site(&p)), format!("into_struct_array panicked: {}", p))),
		rt::Out::Err(e) => return Err(fail("export err", e)),
	};
	// schema
	let ports: Vec<(u8, bool)> = m.ports.iter().map(|p| (p.port, p.ics)).collect();
	let want = expected_schema(v, &ports);
	if !same_shape(arr.data_type(), &want) {
		return Err(fail("schema", format!("schema differs: {}", first_schema_diff(arr.data_type(), &want))));
	}
	use arrow2::array::Array;
	if arr.len() != rows {
		return Err(fail("rows", format!("struct array has {} rows for {} frames", arr.len(), rows)));
	}
	// every exported column holds the in-memory column's values and validity (walked by name)
	let mut av = view_arrow(&arr).map_err(|e| fail("walk", e))?;
	if spec::gte(v, (3, 0)) && !spec::gte(v, (3, 7)) && av.end.is_none() {
		// 3.0-3.6: Frame End has no fields, so the export has no `end` child (checked by the schema
		// comparison above); the in-memory End then has no columns either
		av.end = Some(spec::leaves(Kind::FrameEnd).map(|l| (l.path, None)).collect());
	}
	diff_views(&av, &view_immutable(&g_cols.frames)).map_err(|e| fail("values", format!("exported column differs from in-memory column: {}", e)))?;
	// and the model's (so export(x) is right, not merely self-consistent)
	diff_views(&av, &crate::access::view_model(m)).map_err(|e| fail("values_model", format!("exported column differs from the history: {}", e)))?;
	// validity bits mark absent characters
	for (pv, pm) in av.ports.iter().zip(&crate::access::view_model(m).ports) {
		let n = rows;
		let a = pv.leader.valid.clone().unwrap_or_else(|| vec![true; n]);
		if Some(&a) != pm.leader.valid.as_ref() {
			return Err(fail("validity", format!("P{} leader validity bits differ from presence", pv.port + 1)));
		}
	}
	// a skip-frames read yields zero rows: its export must still have the full per-version schema
	if m.end.bytes().is_some() && (rows + bytes.len()) % 3 == 0 {
		for (which, sk) in [("slp", rt::slp_read(&bytes, true, false))] {
			if let rt::Out::Ok(sg) = sk {
				let socc = port_occupancy(&sg.start);
				match rt::guard(|| Ok::<_, String>(sg.frames.into_struct_array(version, &socc))) {
					rt::Out::Ok(a) => {
						if !same_shape(a.data_type(), &want) || a.len() != 0 {
							return Err(fail("skip_schema", format!("export of a skip-frames ({}) game: {} rows, schema {}", which, a.len(), first_schema_diff(a.data_type(), &want))));
						}
					}
					rt::Out::Panic(p) => return Err(fail(&format!("skip_export panic~{}", rt::panic_site(&p)), format!("exporting the zero-row frames of a skip-frames ({}) read panicked: {}", which, p))),
					rt::Out::Err(e) => return Err(fail("skip_export err", e)),
				}
				if counting {
					ctx.class("zero_row_export_of_skip_frames_game");
				}
			}
		}
	}
	// import again -> identical .slp
	let back = match rt::guard(|| Ok::<_, String>(Frame::from_struct_array(arr, version))) {
		rt::Out::Ok(f) => f,
		rt::Out::Panic(p) => return Err(fail(&format!("import panic~{}", rt::panic_site(&p)), format!("from_struct_array panicked: {}", p))),
		rt::Out::Err(e) => return Err(fail("import err", e)),
	};
	let g2 = Game { start, end, frames: back, metadata, gecko_codes, hash, quirks };
	let w = rt::slp_write(&g2).expect_ok("slippi::write(imported frames)").map_err(|f| f.with_file("slp", &bytes))?;
	if w != bytes {
		let i = (0..w.len().min(bytes.len())).find(|&i| w[i] != bytes[i]).unwrap_or(w.len().min(bytes.len()));
		return Err(fail("roundtrip", format!(".slp written from the re-imported frames differs at offset {}", i)));
	}
	// second generation: exporting the imported frames again gives the same struct
	if rows % 2 == 0 {
		let occ2 = port_occupancy(&g2.start);
		let arr2 = match rt::guard(|| Ok::<_, String>(g2.frames.into_struct_array(version, &occ2))) {
			rt::Out::Ok(a) => a,
			rt::Out::Panic(p) => return Err(fail(&format!("export2 panic~{}", rt::panic_site(&p)), format!("exporting the re-imported frames panicked: {}", p))),
			rt::Out::Err(e) => return Err(fail("export2 err", e)),
		};
		if !same_shape(arr2.data_type(), &want) {
			return Err(fail("schema_second_generation", format!("schema of the second export differs: {}", first_schema_diff(arr2.data_type(), &want))));
		}
		let mut av2 = view_arrow(&arr2).map_err(|e| fail("walk2", e))?;
		if spec::gte(v, (3, 0)) && !spec::gte(v, (3, 7)) && av2.end.is_none() {
			av2.end = Some(spec::leaves(Kind::FrameEnd).map(|l| (l.path, None)).collect());
		}
		diff_views(&av2, &crate::access::view_model(m)).map_err(|e| fail("values_second_generation", format!("second export differs from the history: {}", e)))?;
	}
	Ok(())
}

/// schema sweep: all 784 minors x all 15 port subsets (ICs pattern varies with the index)
fn schema_case(i: usize) -> ModelGame {
	let minors = spec::all_minors();
	let (ma, mi) = minors[i / 15];
	let mask = 1 + i % 15;
	let ports: Vec<(u8, bool)> = (0..4u8).filter(|p| mask & (1 << p) != 0).map(|p| (p, (i / 3 + p as usize) % 3 == 0)).collect();
	crate::gen::simple_model((ma, mi, 0), &ports, 1 + i % 2, i as u64, crate::gen::Pattern::Distinct, 1, false)
}

pub fn case(ctx: &Ctx, kind: &str, params: &Value, counting: bool) -> Result<(), Fail> {
	match kind {
		"schema" => check(ctx, &schema_case(params["i"].as_u64().unwrap_or(0) as usize), "schema_sweep", counting),
		"large" => check(ctx, &large_model(params["i"].as_u64().unwrap_or(0) as usize), "large_game", counting),
		"fixture" => match fixture_model(&dna_param(params)) {
			Some((_, m)) => check(ctx, &m, "fixture", counting),
			None => Ok(()),
		},
		_ => check(ctx, &model_from_dna(&dna_param(params), &cfg_for(ctx)), "dna", counting),
	}
}

pub fn run(ctx: &Ctx) -> usize {
	ctx.set_rule("all 784 minor versions x all 15 port subsets (ICs pattern varied) enumerated, plus random histories; oracle: data_type() of the export == the schema built from the engine's spec table (names, nesting, order, primitive types, ports.P<n>.leader[/follower].pre/post, item as List<Struct>, no `end` child for 3.0-3.6 where Frame End has no fields), length == rows, each Arrow child column (walked by NAME) holds the bits and validity of the in-memory column and of the generated history, and slippi::write(from_struct_array(into_struct_array(frames))) reproduces the file; non-trivial = >=1 row and an ICs port, an absence or an item; distinct by xxh3 of the file");
	ctx.assume("for 3.0-3.6 the schema omits the `end` struct (D2's repair); Arrow forbids empty structs");
	let mut violations = 0;
	let n = spec::all_minors().len() * 15;
	if run_enum(ctx, "schema", n, |i| json!({ "i": i }), |i| check(ctx, &schema_case(i), "schema_sweep", true)).is_some() {
		violations += 1;
	} else {
		ctx.put("schema_cells_enumerated", json!(n));
	}
	let cfg = cfg_for(ctx);
	if run_dna(ctx, "dna", ctx.n(20_000, 1_000_000), dna_max(ctx), |dna, counting| check(ctx, &model_from_dna(dna, &cfg), "dna", counting)).is_some() {
		violations += 1;
	}
	if fixture_count() > 0 {
		if run_dna(ctx, "fixture", ctx.n(3_000, 150_000), 512, |dna, counting| match fixture_model(dna) {
			Some((_, m)) => check(ctx, &m, "fixture", counting),
			None => Ok(()),
		})
		.is_some()
		{
			violations += 1;
		}
	}
	// games that cross 8-bit / 16-bit counters (items per frame, items in total, frame rows)
	if violations == 0 && run_enum(ctx, "large", LARGE_CASES, |i| json!({ "i": i }), |i| check(ctx, &large_model(i), "large_game", true)).is_some() {
		violations += 1;
	}
	violations
}
