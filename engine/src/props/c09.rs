//! C09 — writers refuse games newer than the supported version instead of losing data.

use std::sync::atomic::{AtomicU64, Ordering};

use serde_json::{json, Value};

use super::*;
use crate::gen::{simple_model, Pattern};
use crate::rt::{self, run_dna, run_enum, Comp, Out};
use peppi::io::slippi::Version;

fn newer(v: (u8, u8, u8)) -> bool {
	v > spec::MAX_VERSION
}

fn base_game() -> (Vec<u8>, peppi::game::immutable::Game) {
	let m = simple_model((3, 16, 0), &[(0, false), (1, false)], 2, 42, Pattern::Random, 1, true);
	let b = m.encode();
	let g = match rt::slp_read_default(&b) {
		Out::Ok(g) => g,
		o => panic!("C09 base game does not read: {}", o.kind()),
	};
	(b, g)
}

/// reject side, `.slp` writer: field set to each version in the block `hi` (major, minor) x all patches
fn reject_block_slp(i: usize, g: &mut peppi::game::immutable::Game, count: &AtomicU64) -> Result<(), Fail> {
	let (ma, mi) = ((i >> 8) as u8, (i & 0xFF) as u8);
	for patch in 0..=255u8 {
		let v = (ma, mi, patch);
		if !newer(v) {
			continue;
		}
		g.start.slippi.version = Version(ma, mi, patch);
		count.fetch_add(1, Ordering::Relaxed);
		match rt::slp_write(g) {
			Out::Err(_) => {}
			Out::Ok(_) => return Err(Fail::new("op=slp write newer ok", format!("slippi::write accepted version {}.{}.{}", ma, mi, patch)).with_detail(json!({"version": [ma, mi, patch]}))),
			Out::Panic(p) => return Err(Fail::new("op=slp write newer panic", format!("slippi::write panicked for version {}.{}.{}: {}", ma, mi, patch, p))),
		}
	}
	Ok(())
}

fn reject_one_both(ctx: &Ctx, base: &[u8], v: (u8, u8, u8), counting: bool) -> Result<(), Fail> {
	if !newer(v) {
		return Ok(());
	}
	if counting {
		ctx.eval();
		ctx.class("reject_side");
		let near = v.0 == 3 && (v.1 == 16 || v.1 == 17) || (v.0 == 4 && v.1 == 0);
		if near {
			ctx.class("reject_near_boundary");
		}
		ctx.nontrivial(rt::hash_bytes(&[1, v.0, v.1, v.2]));
		ctx.sample_k("reject", 4, || json!({"version": format!("{}.{}.{}", v.0, v.1, v.2), "writers": ["slp", "slpp"]}));
	}
	// the refusal must not depend on what else the game contains: the base game varies with the version
	// (no players at all, no frames, no Gecko list, no Game End, no metadata, Ice Climbers)
	let variant = (rt::hash_bytes(&[v.0, v.1, v.2]) % 8) as usize;
	let alt;
	let base: &[u8] = if variant == 0 {
		base
	} else {
		let mut m = match variant {
			1 => simple_model((3, 16, 0), &[], 0, 3, Pattern::Zero, 1, true),
			2 => simple_model((3, 16, 0), &[(1, false)], 0, 4, Pattern::Random, 1, true),
			3 => simple_model((3, 16, 0), &[(0, true), (3, false)], 2, 5, Pattern::Random, 0, true),
			4 => simple_model((3, 16, 0), &[(2, false)], 1, 6, Pattern::Random, 2, false),
			5 => simple_model((2, 0, 1), &[(0, false), (1, false)], 2, 7, Pattern::Random, 1, true),
			6 => simple_model((0, 1, 0), &[(0, false), (1, false), (2, false), (3, false)], 1, 8, Pattern::Random, 0, false),
			_ => simple_model((3, 16, 0), &[(0, false), (1, true)], 3, 9, Pattern::Special, 1, true),
		};
		if variant % 2 == 0 {
			m.gecko = None;
		}
		alt = m.encode();
		&alt
	};
	if counting {
		ctx.class(&format!("reject_base_variant_{}", variant));
	}
	let mut g = rt::slp_read_default(base).expect_ok("slippi::read(base game)")?;
	g.start.slippi.version = Version(v.0, v.1, v.2);
	// ... nor on the Gecko blob (a bare Gecko List event gives a blob that is not a whole number of 512-byte blocks)
	if rt::hash_bytes(&[v.0, v.2, v.1, 3]) % 5 == 0 {
		let n = 1 + (rt::hash_bytes(&[v.1, v.0, v.2]) % 700) as usize;
		g.gecko_codes = Some(peppi::game::GeckoCodes { bytes: vec![0x5a; n], actual_size: n as u32 });
		if counting {
			ctx.class("reject_base_odd_gecko_blob");
		}
	}
	// ... nor on the stored hash (a .slpp may carry any string there)
	g.hash = match (rt::hash_bytes(&[v.2, v.1, v.0, 9]) % 6) as usize {
		0 | 1 => None,
		2 => Some(String::new()),
		3 => Some("crc:1c291ca3".into()),
		4 => Some("xxh3:ハッシュ値なし".into()),
		_ => Some("xxh3:0123456789abcdef".into()),
	};
	let d = json!({"version": [v.0, v.1, v.2], "base_variant": variant});
	match rt::slp_write(&g) {
		Out::Err(_) => {}
		o => return Err(Fail::new(format!("op=slp write newer {}", o.kind()), format!("slippi::write did not refuse version {:?}", v)).with_detail(d)),
	}
	match rt::slpp_write(g, Comp::None) {
		Out::Err(_) => {}
		o => return Err(Fail::new(format!("op=slpp write newer {}", o.kind()), format!("peppi::write did not refuse version {:?}", v)).with_detail(d)),
	}
	Ok(())
}

fn accept_one(ctx: &Ctx, v: (u8, u8, u8), counting: bool) -> Result<(), Fail> {
	let m = simple_model(v, &[(0, false), (2, v.2 % 2 == 0)], 2, 7 + v.2 as u64, Pattern::Random, (v.2 % 3) as u8, v.2 % 2 == 1);
	let b = m.encode();
	if counting {
		ctx.eval();
		ctx.class("accept_side");
		if v.0 == 3 && v.1 >= 15 {
			ctx.class("accept_near_boundary");
		}
		ctx.nontrivial(rt::hash_bytes(&[0, v.0, v.1, v.2]));
		ctx.sample_k("accept", 3, || json!({"version": format!("{}.{}.{}", v.0, v.1, v.2), "model": m.summary()}));
	}
	let sig = |op: &str| format!("op={} accept v{}.{}", op, v.0, v.1);
	let g = rt::slp_read_default(&b).expect_ok("slippi::read").map_err(|f| f.with_file("slp", &b))?;
	match rt::slp_write(&g) {
		Out::Ok(_) => {}
		Out::Err(e) => return Err(Fail::new(sig("slp write"), format!("slippi::write refused supported version {:?}: {}", v, e)).with_file("slp", &b)),
		Out::Panic(p) => return Err(Fail::new(sig("slp write panic"), p).with_file("slp", &b)),
	}
	match rt::slpp_write(g, Comp::None) {
		Out::Ok(_) => Ok(()),
		Out::Err(e) => Err(Fail::new(sig("slpp write"), format!("peppi::write refused supported version {:?}: {}", v, e)).with_file("slp", &b)),
		Out::Panic(p) => Err(Fail::new(sig("slpp write panic"), p).with_file("slp", &b)),
	}
}

const BOUNDARY: [(u8, u8, u8); 14] = [(3, 16, 1), (3, 16, 2), (3, 16, 255), (3, 17, 0), (3, 17, 255), (3, 255, 255), (4, 0, 0), (4, 0, 1), (4, 16, 0), (255, 0, 0), (255, 255, 255), (3, 255, 0), (128, 0, 0), (4, 15, 0)];

fn newer_file_case(ctx: &Ctx, dna: &[u8], counting: bool) -> Result<(), Fail> {
	let mut cfg = crate::gen::GenCfg::small();
	cfg.newer = true;
	let m = model_from_dna(dna, &cfg);
	let b = m.encode();
	if counting {
		ctx.eval();
		ctx.class("newer_file");
		ctx.nontrivial(rt::hash_bytes(&b));
		ctx.sample_k("newer_file", 2, || m.summary());
	}
	let g = rt::slp_read_default(&b).expect_ok("slippi::read(newer file)").map_err(|f| f.with_file("slp", &b))?;
	match rt::slp_write(&g) {
		Out::Err(_) => {}
		o => return Err(Fail::new(format!("op=slp write newer file {}", o.kind()), format!("slippi::write did not refuse a {:?} file", m.version)).with_file("slp", &b)),
	}
	match rt::slpp_write(g, Comp::None) {
		Out::Err(_) => Ok(()),
		o => Err(Fail::new(format!("op=slpp write newer file {}", o.kind()), format!("peppi::write did not refuse a {:?} file", m.version)).with_file("slp", &b)),
	}
}

fn rand_version(dna: &[u8]) -> (u8, u8, u8) {
	let mut d = Dna::new(dna);
	match d.u8() {
		0..=99 => (3, 16 + d.below(3) as u8, d.u8()),
		100..=149 => (3 + d.below(2) as u8, d.u8(), d.u8()),
		_ => (d.u8(), d.u8(), d.u8()),
	}
}

pub fn case(ctx: &Ctx, kind: &str, params: &Value, counting: bool) -> Result<(), Fail> {
	let ver = |p: &Value| -> (u8, u8, u8) {
		let a = p["version"].as_array().cloned().unwrap_or_default();
		let g = |i: usize| a.get(i).and_then(|x| x.as_u64()).unwrap_or(0) as u8;
		(g(0), g(1), g(2))
	};
	match kind {
		"accept" => accept_one(ctx, ver(params), counting),
		"reject" => reject_one_both(ctx, &base_game().0, ver(params), counting),
		"reject_block" => {
			let (_, mut g) = base_game();
			reject_block_slp(params["i"].as_u64().unwrap_or(0) as usize, &mut g, &AtomicU64::new(0))
		}
		"newer_file" => newer_file_case(ctx, &dna_param(params), counting),
		_ => {
			let v = rand_version(&dna_param(params));
			if newer(v) {
				reject_one_both(ctx, &base_game().0, v, counting)
			} else if v >= (0, 1, 0) {
				accept_one(ctx, v, counting)
			} else {
				Ok(())
			}
		}
	}
}

pub fn run(ctx: &Ctx) -> usize {
	ctx.set_rule("accept side: a generated well-formed replay of every supported (major, minor) x 8 patches (incl. 0 and 255; 3.16 only patch 0) read and written by both writers -> Ok; reject side: a parsed game whose version field is set to each version > 3.16.0 -> Err from both writers (boundary set + random for both; in thorough ALL 16.5M newer versions for the .slp writer), and genuinely newer generated files read then written -> Err; non-trivial = every case (each is a distinct version on a known side of the boundary); distinct by (side, version)");
	let mut violations = 0;
	// accept side
	let mut acc: Vec<(u8, u8, u8)> = Vec::new();
	for (ma, mi) in spec::all_minors() {
		if (ma, mi) == (3, 16) {
			acc.push((3, 16, 0));
		} else {
			for p in [0u8, 1, 2, 17, 100, 128, 254, 255] {
				acc.push((ma, mi, p));
			}
		}
	}
	if run_enum(ctx, "accept", acc.len(), |i| json!({"version": [acc[i].0, acc[i].1, acc[i].2]}), |i| accept_one(ctx, acc[i], true)).is_some() {
		violations += 1;
	}
	// reject side, both writers: boundary set
	let (base, _) = base_game();
	if run_enum(ctx, "reject", BOUNDARY.len(), |i| json!({"version": [BOUNDARY[i].0, BOUNDARY[i].1, BOUNDARY[i].2]}), |i| reject_one_both(ctx, &base, BOUNDARY[i], true)).is_some() {
		violations += 1;
	}
	// random versions on both sides, both writers
	if run_dna(ctx, "dna", ctx.n(20_000, 400_000), 16, |dna, counting| {
		let v = rand_version(dna);
		if newer(v) {
			reject_one_both(ctx, &base, v, counting)
		} else if v >= (0, 1, 0) {
			accept_one(ctx, v, counting)
		} else {
			Ok(())
		}
	})
	.is_some()
	{
		violations += 1;
	}
	// the .slp writer over the (major, minor) blocks of the reject space: all in thorough, every 16th + the boundary blocks in quick
	let blocks: Vec<usize> = (0..(1usize << 16))
		.filter(|i| {
			let (ma, mi) = ((i >> 8) as u8, (i & 0xFF) as u8);
			(ma, mi) >= (3, 16) && (!ctx.quick() || i % 16 == 0 || (ma == 3) || (ma == 4 && mi < 32))
		})
		.collect();
	let count = AtomicU64::new(0);
	if run_enum(ctx, "reject_block", blocks.len(), |k| json!({"i": blocks[k]}), |k| {
		let (_, mut g) = base_game();
		reject_block_slp(blocks[k], &mut g, &count)
	})
	.is_some()
	{
		violations += 1;
	}
	let n = count.load(Ordering::Relaxed);
	ctx.evals(n);
	ctx.put("slp_writer_reject_versions_checked", json!(n));
	if !ctx.quick() && violations == 0 {
		ctx.put("slp_writer_reject_space_exhaustive", json!(n == 16_777_216 - (3 * 65536 + 16 * 256 + 1)));
	}
	if run_dna(ctx, "newer_file", ctx.n(10_000, 500_000), 1024, |dna, counting| newer_file_case(ctx, dna, counting)).is_some() {
		violations += 1;
	}
	violations
}
