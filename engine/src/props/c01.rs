//! C01 — `.slp` -> game -> `.slp` is byte-identical.

use serde_json::{json, Value};

use super::*;
use crate::gen::{simple_model, Pattern};
use crate::rt::{self, run_dna, run_enum};

/// the same bytes through different, equally legitimate ways of calling the reader
fn read_variant(bytes: &[u8], variant: usize) -> rt::Out<peppi::game::immutable::Game> {
	use std::io::{BufReader, Cursor};
	if variant % 23 == 11 && bytes.len() <= 8192 && rt::debug_budget_take() {
		// the `debug` option must not change what is parsed
		return rt::with_debug_dir(|dir| {
			let o = peppi::io::slippi::de::Opts { skip_frames: false, compute_hash: false, debug: Some(peppi::io::slippi::de::Debug { dir: dir.to_path_buf() }) };
			rt::guard(|| peppi::io::slippi::read(Cursor::new(bytes), Some(&o)))
		});
	}
	match variant % 5 {
		0 => rt::slp_read_default(bytes),
		1 => rt::slp_read(bytes, false, false),
		2 => rt::guard(|| peppi::io::slippi::read(BufReader::with_capacity(37, Cursor::new(bytes)), None)),
		3 => {
			let mut r = crate::readers::SchedReader::new(bytes, crate::readers::Schedule::Fixed(3));
			rt::guard(|| peppi::io::slippi::read(&mut r, None))
		}
		_ => rt::guard(|| peppi::io::slippi::read(BufReader::new(Cursor::new(bytes.to_vec())), Some(&rt::slp_opts(false, true)))),
	}
}

pub fn roundtrip(m: &ModelGame) -> Result<(), Fail> {
	let bytes = m.encode();
	super::sibling_history(m, &bytes);
	let variant = bytes.len() + m.frames.len();
	let g = read_variant(&bytes, variant).expect_ok("slippi::read").map_err(|f| {
		let mut f = f.with_file("slp", &bytes);
		f.msg = format!("{} (reader variant {})", f.msg, variant % 5);
		f
	})?;
	let w = rt::slp_write(&g).expect_ok("slippi::write").map_err(|f| f.with_file("slp", &bytes))?;
	if w != bytes {
		let d = describe_diff(&bytes, &w, m);
		let cls = if d.contains("declared raw length") { "rawlen" } else { "bytes" };
		return Err(Fail::new(format!("op=roundtrip diff={}", cls), d)
			.with_file("slp", &bytes)
			.with_file("written.slp", &w)
			.with_detail(m.summary()));
	}
	// second generation: what was written reads back and writes to the same bytes again
	if variant % 3 == 0 {
		let g2 = rt::slp_read_default(&w).expect_ok("slippi::read(written)").map_err(|f| f.with_file("slp", &bytes))?;
		let w2 = rt::slp_write(&g2).expect_ok("slippi::write(2nd generation)").map_err(|f| f.with_file("slp", &bytes))?;
		if w2 != bytes {
			return Err(Fail::new("op=roundtrip diff=second_generation", describe_diff(&bytes, &w2, m)).with_file("slp", &bytes).with_detail(m.summary()));
		}
	}
	Ok(())
}

/// oracle on raw bytes (regression inputs): must read, and write back identically
pub fn file_case(bytes: &[u8]) -> Result<(), Fail> {
	let g = rt::slp_read_default(bytes).expect_ok("slippi::read")?;
	let w = rt::slp_write(&g).expect_ok("slippi::write")?;
	if w != bytes {
		let n = w.len().min(bytes.len());
		let i = (0..n).find(|&i| w[i] != bytes[i]).unwrap_or(n);
		return Err(Fail::new("op=roundtrip diff=file", format!("written file differs at offset {} (lengths {} vs {})", i, bytes.len(), w.len())));
	}
	Ok(())
}

const SWEEP_VARIANTS: usize = 6;

fn sweep_model(i: usize) -> ModelGame {
	let minors = spec::all_minors();
	let (ma, mi) = minors[i / SWEEP_VARIANTS];
	let var = i % SWEEP_VARIANTS;
	let patch = if (ma, mi) == (3, 16) { 0 } else { (i * 37 % 256) as u8 };
	let mut m = simple_model(
		(ma, mi, patch),
		&[(0, false), (2, i % 5 == 0)],
		3,
		i as u64 + 1,
		if i % 2 == 0 { Pattern::Random } else { Pattern::Special },
		(var % 3) as u8,
		var / 3 == 0,
	);
	// one absence in the middle frame (gone and back)
	if i % 4 == 1 {
		m.frames[1].chars[1] = None;
	}
	m
}

pub fn case(ctx: &Ctx, kind: &str, params: &Value, counting: bool) -> Result<(), Fail> {
	let m = match kind {
		"sweep" => sweep_model(params["i"].as_u64().unwrap_or(0) as usize),
		"large" => large_model(params["i"].as_u64().unwrap_or(0) as usize),
		"fixture" => match fixture_model(&dna_param(params)) {
			Some((_, m)) => m,
			None => return Ok(()),
		},
		_ => model_from_dna(&dna_param(params), &cfg_for(ctx)),
	};
	check_model(ctx, &m, counting)
}

fn check_model(ctx: &Ctx, m: &ModelGame, counting: bool) -> Result<(), Fail> {
	if counting {
		ctx.eval();
		let f = classify(ctx, m);
		if nontrivial_game(&f) {
			ctx.nontrivial(rt::hash_bytes(&m.encode()));
		}
		if ctx.want_sample() && f.frames > 0 {
			ctx.sample(m.summary());
		}
	}
	roundtrip(m)
}

pub fn run(ctx: &Ctx) -> usize {
	ctx.set_rule("models of well-formed replays from the independent encoder (choice-stream generator over version x ports x ICs x frame history with rollbacks/absences/items x gecko x end x metadata; plus a deterministic sweep of all 784 minor versions x {no end, end, doubled end} x {metadata, none}); oracle: write(read(bytes)) == bytes; non-trivial = >=1 frame and at least one of {absent character, rollback, item, gecko, missing/doubled end, no metadata, Ice Climbers, >=3 ports}; distinct by xxh3 of the encoded file");
	ctx.assume("the engine's spec tables (self-tested, fixture-checked) describe what the recorder writes");
	let mut violations = 0;
	crate::selftest::fixtures(ctx);
	let n = spec::all_minors().len() * SWEEP_VARIANTS;
	if run_enum(ctx, "sweep", n, |i| json!({ "i": i }), |i| check_model(ctx, &sweep_model(i), true)).is_some() {
		violations += 1;
	}
	let cfg = cfg_for(ctx);
	let cases = ctx.n(60_000, 3_000_000);
	if run_dna(ctx, "dna", cases, dna_max(ctx), |dna, counting| check_model(ctx, &model_from_dna(dna, &cfg), counting)).is_some() {
		violations += 1;
	}
	if run_enum(ctx, "large", LARGE_CASES, |i| json!({ "i": i }), |i| {
		ctx.class("large_game");
		check_model(ctx, &large_model(i), true)
	})
	.is_some()
	{
		violations += 1;
	}
	if fixture_count() > 0 {
		ctx.put("fixture_bank", json!(fixture_count()));
		if run_dna(ctx, "fixture", ctx.n(6_000, 300_000), 512, |dna, counting| match fixture_model(dna) {
			Some((name, m)) => {
				if counting {
					ctx.class(&format!("fixture:{}", name));
				}
				check_model(ctx, &m, counting)
			}
			None => Ok(()),
		})
		.is_some()
		{
			violations += 1;
		}
	}
	if !ctx.quick() && violations == 0 {
		let secs = std::env::var("PV_FUZZ_SECS").ok().and_then(|s| s.parse().ok()).unwrap_or(240);
		if rt::run_fuzz(ctx, "model_roundtrip", secs, 8, 4096, &rt::random_seeds(ctx.seed, 12, 1024)).is_some() {
			violations += 1;
		}
	}
	violations
}
