//! C11 — the replay hash is the XXH3-64 of exactly the file's bytes, however they arrive.

use serde_json::{json, Value};

use super::*;
use crate::gen::{simple_model, Pattern};
use crate::readers::{gen_schedule, SchedReader, Schedule};
use crate::rt::{self, run_dna, run_enum, Comp};

fn want_hash(bytes: &[u8]) -> String {
	format!("xxh3:{:016x}", xxhash_rust::xxh3::xxh3_64(bytes))
}

struct Case {
	m: ModelGame,
	sched: Schedule,
	skip: bool,
	hash: bool,
	trailing: usize,
	/// bytes of unknown-event filler between the frames and the Game End
	pad: usize,
}

fn gen_case(dna: &[u8], cfg: &crate::gen::GenCfg) -> Case {
	let mut d = Dna::new(dna);
	let flags = d.u8();
	let mut cfg = cfg.clone();
	let skip = flags & 1 != 0;
	cfg.finished = skip;
	let hash = flags & 0x06 != 0; // 3 of 4
	let trailing = if flags & 0x18 == 0x18 { 1 + d.below(40) } else { 0 };
	let sched_dna: Vec<u8> = (0..8).map(|_| d.u8()).collect();
	let m = super::gen_model_mixed(&mut d, &cfg, true);
	let len = m.encode().len();
	let sched = gen_schedule(&mut Dna::new(&sched_dna), len);
	let pad = if flags & 0xE0 == 0xE0 { [8_000usize, 65_000, 131_000][d.below(3)] + d.below(2_000) } else { 0 };
	Case { m, sched, skip, hash, trailing, pad }
}

fn check(ctx: &Ctx, c: &Case, label: &str, counting: bool) -> Result<(), Fail> {
	let file = super::encode_padded(&c.m, c.pad);
	let mut bytes = file.clone();
	bytes.extend((0..c.trailing).map(|i| (i as u8).wrapping_mul(37) ^ 0x5A));
	let want = want_hash(&file);
	if counting {
		ctx.eval();
		ctx.class(label);
		ctx.class(&format!("schedule:{}", c.sched.describe().split('(').next().unwrap()));
		ctx.class(if c.skip { "skip_frames" } else { "full_parse" });
		ctx.class(if c.hash { "hash_requested" } else { "hash_not_requested" });
		if c.trailing > 0 {
			ctx.class("trailing_bytes_after_closing_brace");
		}
		if c.pad > 0 {
			ctx.class(&format!("file>={}KiB", [8192, 4096, 1024, 64, 8].iter().find(|k| c.pad >= **k * 1024).copied().unwrap_or(0)));
		}
		if want.as_bytes()[5] == b'0' {
			ctx.class("digest_with_leading_zero_nibble");
		}
		if !matches!(c.sched, Schedule::Full) && !c.m.frames.is_empty() {
			let mut h = file.clone();
			h.extend_from_slice(c.sched.describe().as_bytes());
			h.push(c.skip as u8);
			ctx.nontrivial(rt::hash_bytes(&h));
		}
		ctx.sample_k(label, 4, || json!({"model": c.m.summary(), "schedule": c.sched.describe(), "skip_frames": c.skip, "hash": c.hash, "trailing": c.trailing, "expected": want}));
	}
	let detail = json!({"model": c.m.summary(), "schedule": c.sched.describe(), "skip_frames": c.skip, "hash": c.hash, "trailing": c.trailing});
	let mut r = SchedReader::new(&bytes, c.sched.clone());
	let o = rt::slp_opts(c.skip, c.hash);
	let g = rt::guard(|| peppi::io::slippi::read(&mut r, Some(&o))).expect_ok("slippi::read").map_err(|f| f.with_file("slp", &bytes).with_detail(detail.clone()))?;
	let fail = |sig: &str, msg: String| Fail::new(format!("op=hash {}", sig), msg).with_file("slp", &bytes).with_detail(detail.clone());
	if c.hash {
		if g.hash.as_deref() != Some(want.as_str()) {
			return Err(fail(if c.skip { "value skip" } else { "value" }, format!("hash {:?}, expected {} (schedule {}, skip {})", g.hash, want, c.sched.describe(), c.skip)));
		}
		// (the position of the caller's stream after the call is not part of the property: a reader
		// that buffers internally may have read ahead; the digest above already pins the hashed bytes
		// to exactly the file)
	} else if g.hash.is_some() {
		return Err(fail("unrequested", format!("hash {:?} reported although not requested", g.hash)));
	}
	// the `debug` option (dumps event payloads into a directory) must change neither: no hash unless
	// requested, the exact digest if requested
	if bytes.len() <= 4096 && rt::hash_bytes(&bytes) % 16 == 9 && rt::debug_budget_take() {
		let h = rt::with_debug_dir(|dir| {
			let o = peppi::io::slippi::de::Opts { skip_frames: c.skip, compute_hash: c.hash, debug: Some(peppi::io::slippi::de::Debug { dir: dir.to_path_buf() }) };
			let mut r = SchedReader::new(&bytes, c.sched.clone());
			rt::guard(|| peppi::io::slippi::read(&mut r, Some(&o))).expect_ok("slippi::read(debug option)").map(|g| g.hash)
		})
		.map_err(|f| f.with_file("slp", &bytes).with_detail(detail.clone()))?;
		if counting {
			ctx.class("with_debug_option");
		}
		let want_h = if c.hash { Some(want.clone()) } else { None };
		if h != want_h {
			return Err(fail("debug_option", format!("with the debug option: hash {:?}, expected {:?} (compute_hash={})", h, want_h, c.hash)));
		}
	}
	// carried unchanged through .slpp
	if counting && c.hash && (file.len() % 4 == 0) {
		let h0 = g.hash.clone();
		if spec::gte(c.m.v(), (0, 1)) {
			let p = rt::slpp_write(g, Comp::None).expect_ok("peppi::write").map_err(|f| f.with_file("slp", &bytes))?;
			let g2 = rt::slpp_read(&p, false).expect_ok("peppi::read").map_err(|f| f.with_file("slpp", &p))?;
			if g2.hash != h0 {
				return Err(fail("slpp", format!("hash after .slpp {:?} != {:?}", g2.hash, h0)));
			}
			ctx.class("carried_through_slpp");
		}
	}
	Ok(())
}

fn split_case(i: usize) -> Case {
	// every two-piece split of one small file per regime
	let vers = [(0, 1, 0), (2, 2, 0), (3, 16, 0)];
	let m0 = simple_model(vers[0], &[(0, false)], 1, 5, Pattern::Random, 1, true);
	let m1 = simple_model(vers[1], &[(0, false)], 1, 6, Pattern::Random, 1, true);
	let l0 = m0.encode().len();
	let l1 = m1.encode().len();
	let (m, at) = if i < l0 {
		(m0, i)
	} else if i < l0 + l1 {
		(m1, i - l0)
	} else {
		(simple_model(vers[2], &[(0, true)], 1, 7, Pattern::Random, 2, true), i - l0 - l1)
	};
	Case { m, sched: Schedule::Split(at), skip: i % 2 == 1, hash: true, trailing: 0, pad: 0 }
}

fn split_total() -> usize {
	let a = simple_model((0, 1, 0), &[(0, false)], 1, 5, Pattern::Random, 1, true).encode().len();
	let b = simple_model((2, 2, 0), &[(0, false)], 1, 6, Pattern::Random, 1, true).encode().len();
	let c = simple_model((3, 16, 0), &[(0, true)], 1, 7, Pattern::Random, 2, true).encode().len();
	a + b + c
}

/// file sizes that cross 8 KiB .. 16 MiB (not multiples of any of them) x schedule x skip
const HUGE_PADS: [usize; 6] = [8_193, 65_537, 300_001, (1 << 20) + 5, (8 << 20) + 4_321, (16 << 20) + 17];
fn huge(i: usize) -> Case {
	let pad = HUGE_PADS[i % HUGE_PADS.len()];
	let var = i / HUGE_PADS.len();
	let m = simple_model([(0, 1, 0), (3, 16, 0)][var % 2], &[(0, false), (2, false)], 2, i as u64 + 9, Pattern::Random, 1, true);
	let sched = match var % 4 {
		0 => Schedule::Full,
		1 => Schedule::Fixed(4096),
		2 => Schedule::Random(i as u64 + 1, 70_000),
		_ => Schedule::Split(pad / 2),
	};
	Case { m, sched, skip: var % 2 == 0, hash: true, trailing: (i % 3) * 5, pad }
}

pub fn case(ctx: &Ctx, kind: &str, params: &Value, counting: bool) -> Result<(), Fail> {
	match kind {
		"split" => check(ctx, &split_case(params["i"].as_u64().unwrap_or(0) as usize), "split", counting),
		"vector" => vector(),
		"huge" => check(ctx, &huge(params["i"].as_u64().unwrap_or(0) as usize), "huge", counting),
		_ => check(ctx, &gen_case(&dna_param(params), &cfg_for(ctx)), "dna", counting),
	}
}

/// published XXH3-64 test vector anchors the reference implementation
fn vector() -> Result<(), Fail> {
	if xxhash_rust::xxh3::xxh3_64(b"") != 0x2d06800538d394c2 {
		return Err(Fail::new("machinery", "reference XXH3 does not reproduce the published vector"));
	}
	Ok(())
}

pub fn run(ctx: &Ctx) -> usize {
	ctx.set_rule("generated replays x read schedules (full, fixed chunks 1/2/3/7/64/4096, random short reads, every two-piece split of three small files) x {skip frames on/off} x {hash requested or not} x trailing bytes after the closing brace; oracle: hash == 'xxh3:' + 16 lower-hex digits of the one-shot XXH3-64 of the file (anchored by the published vector for the empty input), trailing bytes after the closing brace never enter the digest, None when not requested, unchanged through .slpp; non-trivial = a fragmenting schedule on a replay with >=1 frame; distinct by xxh3(file, schedule, skip)");
	ctx.assume("xxhash-rust's one-shot xxh3_64 is a different code path from the streaming hasher peppi uses");
	vector().expect("xxh3 reference vector");
	let mut violations = 0;
	let n = split_total();
	if run_enum(ctx, "split", n, |i| json!({ "i": i }), |i| check(ctx, &split_case(i), "split", true)).is_some() {
		violations += 1;
	}
	if violations == 0 && run_enum(ctx, "huge", HUGE_PADS.len() * ctx.n(4, 8), |i| json!({ "i": i }), |i| check(ctx, &huge(i), "huge", true)).is_some() {
		violations += 1;
	}
	let cfg = cfg_for(ctx);
	if run_dna(ctx, "dna", ctx.n(50_000, 2_500_000), dna_max(ctx), |dna, counting| check(ctx, &gen_case(dna, &cfg), "dna", counting)).is_some() {
		violations += 1;
	}
	violations
}
