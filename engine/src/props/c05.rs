//! C05 — Game Start / Game End fields equal the spec-offset values of the raw blocks.

use serde_json::{json, Value};

use super::*;
use crate::gen::{gen_start, simple_model, Pattern, PortPlan};
use crate::model::EndSpec;
use crate::rt::{self, run_dna, run_enum, Out};
use crate::spec::gs;
use crate::tarfmt::{parse_json, J};

fn be16(b: &[u8], o: usize) -> u16 {
	u16::from_be_bytes([b[o], b[o + 1]])
}
fn be32(b: &[u8], o: usize) -> u32 {
	u32::from_be_bytes([b[o], b[o + 1], b[o + 2], b[o + 3]])
}
fn f32_text(bits: u32) -> J {
	let f = f32::from_bits(bits);
	if f.is_finite() {
		J::Num(serde_json::to_string(&f).unwrap())
	} else {
		J::Null
	}
}
fn num<T: std::fmt::Display>(x: T) -> J {
	J::Num(x.to_string())
}
fn s(x: &str) -> J {
	J::Str(x.to_string())
}

fn sjis(field: &[u8]) -> Result<String, ()> {
	let cut = field.iter().position(|b| *b == 0).unwrap_or(field.len());
	encoding_rs::SHIFT_JIS.decode_without_bom_handling_and_without_replacement(&field[..cut]).map(|c| c.to_string()).ok_or(())
}

/// UTF-8 up to the first NUL; without a NUL the last byte of the field is not part of the text
fn utf8z(field: &[u8]) -> Result<String, ()> {
	let cut = field.iter().position(|b| *b == 0).unwrap_or(field.len() - 1);
	std::str::from_utf8(&field[..cut]).map(|x| x.to_string()).map_err(|_| ())
}

/// Expected JSON rendering of the Start block (Err = the block must be rejected).
fn expected_start(b: &[u8]) -> Result<J, String> {
	let len = b.len();
	let teams = b[gs::TEAMS] != 0;
	let mut o: Vec<(String, J)> = vec![
		("slippi".into(), J::Obj(vec![("version".into(), J::Arr(vec![num(b[0]), num(b[1]), num(b[2])]))])),
		("bitfield".into(), J::Arr(b[gs::BITFIELD..gs::BITFIELD + 4].iter().map(|x| num(*x)).collect())),
		("is_raining_bombs".into(), J::Bool(b[gs::BOMBS] != 0)),
		("is_teams".into(), J::Bool(teams)),
		("item_spawn_frequency".into(), num(b[gs::ITEM_FREQ] as i8)),
		("self_destruct_score".into(), num(b[gs::SD_SCORE] as i8)),
		("stage".into(), num(be16(b, gs::STAGE))),
		("timer".into(), num(be32(b, gs::TIMER))),
		("item_spawn_bitfield".into(), J::Arr(b[gs::ITEM_BITFIELD..gs::ITEM_BITFIELD + 5].iter().map(|x| num(*x)).collect())),
		("damage_ratio".into(), f32_text(be32(b, gs::DAMAGE_RATIO))),
	];
	let mut players = Vec::new();
	// every port's optional blocks are validated even for empty ports
	for i in 0..4 {
		let p = gs::PLAYERS + i * gs::PLAYER_LEN;
		let ty = b[p + gs::P_TYPE];
		let ucf = if len >= 352 {
			let dec = |x: u32, what: &str| match x {
				0 => Ok(J::Null),
				1 => Ok(s("Ucf")),
				2 => Ok(s("Arduino")),
				_ => Err(format!("illegal {} value {}", what, x)),
			};
			Some(J::Obj(vec![("dash_back".into(), dec(be32(b, gs::UCF + 8 * i), "dash back")?), ("shield_drop".into(), dec(be32(b, gs::UCF + 8 * i + 4), "shield drop")?)]))
		} else {
			None
		};
		let tag = if len >= 416 { Some(sjis(&b[gs::NAME_TAG + 16 * i..gs::NAME_TAG + 16 * i + 16]).map_err(|_| "bad name tag")?) } else { None };
		let netplay = if len >= 584 {
			let suid = if len >= 700 { Some(utf8z(&b[gs::NP_UID + 29 * i..gs::NP_UID + 29 * i + 29]).map_err(|_| "bad uid")?) } else { None };
			let name = sjis(&b[gs::NP_NAME + 31 * i..gs::NP_NAME + 31 * i + 31]).map_err(|_| "bad netplay name")?;
			let code = sjis(&b[gs::NP_CODE + 10 * i..gs::NP_CODE + 10 * i + 10]).map_err(|_| "bad code")?;
			let mut n = vec![("name".to_string(), J::Str(name)), ("code".to_string(), J::Str(code))];
			if let Some(u) = suid {
				n.push(("suid".into(), J::Str(u)));
			}
			Some(J::Obj(n))
		} else {
			None
		};
		if ty > 2 {
			continue;
		}
		let mut pl: Vec<(String, J)> = vec![
			("port".into(), s(["P1", "P2", "P3", "P4"][i])),
			("character".into(), num(b[p + gs::P_CHAR])),
			("type".into(), s(["Human", "Cpu", "Demo"][ty as usize])),
			("stocks".into(), num(b[p + gs::P_STOCKS])),
			("costume".into(), num(b[p + gs::P_COSTUME])),
			("team".into(), if teams { J::Obj(vec![("color".into(), num(b[p + gs::P_TEAM])), ("shade".into(), num(b[p + gs::P_SHADE]))]) } else { J::Null }),
			("handicap".into(), num(b[p + gs::P_HANDICAP])),
			("bitfield".into(), num(b[p + gs::P_BITFIELD])),
			("cpu_level".into(), if ty == 1 { num(b[p + gs::P_CPU]) } else { J::Null }),
			("offense_ratio".into(), f32_text(be32(b, p + gs::P_OFFENSE))),
			("defense_ratio".into(), f32_text(be32(b, p + gs::P_DEFENSE))),
			("model_scale".into(), f32_text(be32(b, p + gs::P_SCALE))),
		];
		if let Some(u) = ucf {
			pl.push(("ucf".into(), u));
		}
		if let Some(t) = tag {
			pl.push(("name_tag".into(), J::Str(t)));
		}
		if let Some(n) = netplay {
			pl.push(("netplay".into(), n));
		}
		players.push(J::Obj(pl));
	}
	o.push(("players".into(), J::Arr(players)));
	o.push(("random_seed".into(), num(be32(b, gs::SEED))));
	if len >= 417 {
		o.push(("is_pal".into(), J::Bool(b[gs::PAL] != 0)));
	}
	if len >= 418 {
		o.push(("is_frozen_ps".into(), J::Bool(b[gs::FROZEN_PS] != 0)));
	}
	if len >= 420 {
		o.push(("scene".into(), J::Obj(vec![("minor".into(), num(b[gs::SCENE_MINOR])), ("major".into(), num(b[gs::SCENE_MAJOR]))])));
	}
	if len >= 701 {
		o.push(("language".into(), match b[gs::LANGUAGE] {
			0 => s("Japanese"),
			1 => s("English"),
			x => return Err(format!("illegal language {}", x)),
		}));
	}
	if len >= 760 {
		o.push((
			"match".into(),
			J::Obj(vec![
				("id".into(), J::Str(utf8z(&b[gs::MATCH_ID..gs::MATCH_ID + 51]).map_err(|_| "bad match id")?)),
				("game".into(), num(be32(b, gs::GAME_NUMBER))),
				("tiebreaker".into(), num(be32(b, gs::TIEBREAKER))),
			]),
		));
	}
	Ok(J::Obj(o))
}

fn expected_end(b: &[u8]) -> Result<J, String> {
	let method = match b[0] {
		0 => "Unresolved",
		1 => "Time",
		2 => "Game",
		3 => "Resolved",
		7 => "NoContest",
		x => return Err(format!("illegal end method {}", x)),
	};
	let mut o = vec![("method".to_string(), s(method))];
	if b.len() >= 2 {
		o.push(("lras_initiator".into(), match b[1] {
			255 => J::Null,
			x @ 0..=3 => s(["P1", "P2", "P3", "P4"][x as usize]),
			x => return Err(format!("illegal LRAS initiator {}", x)),
		}));
	}
	if b.len() >= 6 {
		let mut pl = Vec::new();
		for i in 0..4 {
			match b[2 + i] as i8 {
				-1 => {}
				x @ 0..=3 => pl.push(J::Obj(vec![("port".into(), s(["P1", "P2", "P3", "P4"][i])), ("placement".into(), num(x))])),
				x => return Err(format!("illegal placement {}", x)),
			}
		}
		o.push(("players".into(), J::Arr(pl)));
	}
	Ok(J::Obj(o))
}

/// keys whose absence and `null` mean the same (optionals that are not version-gated)
const NULLABLE: [&str; 4] = ["team", "cpu_level", "dash_back", "shield_drop"];

fn num_eq(a: &str, b: &str) -> bool {
	if a == b {
		return true;
	}
	// floats: equal when they denote the same f32
	match (a.parse::<f64>(), b.parse::<f64>()) {
		(Ok(x), Ok(y)) => (x as f32).to_bits() == (y as f32).to_bits() && (a.contains('.') || a.contains('e') || b.contains('.') || b.contains('e')),
		_ => false,
	}
}

/// got vs expected; object keys are compared as sets (key order is not part of the property)
fn first_diff(a: &J, b: &J, path: &str) -> Option<String> {
	match (a, b) {
		(J::Obj(x), J::Obj(y)) => {
			let norm = |o: &Vec<(String, J)>| -> Vec<(String, J)> {
				let mut v: Vec<(String, J)> = o.iter().filter(|(k, v)| !(NULLABLE.contains(&k.as_str()) && *v == J::Null)).cloned().collect();
				v.sort_by(|p, q| p.0.cmp(&q.0));
				v
			};
			let (x, y) = (norm(x), norm(y));
			let kx: Vec<&String> = x.iter().map(|(k, _)| k).collect();
			let ky: Vec<&String> = y.iter().map(|(k, _)| k).collect();
			if kx != ky {
				return Some(format!("{}: keys {:?} vs expected {:?}", path, kx, ky));
			}
			x.iter().zip(y.iter()).find_map(|((k, v), (_, w))| first_diff(v, w, &format!("{}.{}", path, k)))
		}
		(J::Arr(x), J::Arr(y)) => {
			if x.len() != y.len() {
				return Some(format!("{}: array length {} vs expected {}", path, x.len(), y.len()));
			}
			x.iter().zip(y).enumerate().find_map(|(i, (v, w))| first_diff(v, w, &format!("{}[{}]", path, i)))
		}
		(J::Num(x), J::Num(y)) if num_eq(x, y) => None,
		(x, y) if x == y => None,
		(x, y) => Some(format!("{}: {:?} vs expected {:?}", path, x, y)),
	}
}

struct Case {
	start: Vec<u8>,
	end: Option<Vec<u8>>,
	ports: Vec<PortPlan>,
	label: &'static str,
}

fn model_for(c: &Case) -> ModelGame {
	let ver = (c.start[0], c.start[1], c.start[2]);
	let ports: Vec<(u8, bool)> = c.ports.iter().map(|p| (p.port, p.ics)).collect();
	let mut m = simple_model(ver, &ports, 0, 1, Pattern::Zero, 0, false);
	m.start = c.start.clone();
	m.end = match &c.end {
		Some(e) => EndSpec::One(e.clone()),
		None => EndSpec::None,
	};
	m
}

fn check(ctx: &Ctx, c: &Case, counting: bool) -> Result<(), Fail> {
	let m = model_for(c);
	let bytes = m.encode();
	let want_start = expected_start(&c.start);
	let want_end = c.end.as_ref().map(|e| expected_end(e));
	let must_reject = want_start.is_err() || want_end.as_ref().map_or(false, |e| e.is_err());
	if counting {
		ctx.eval();
		ctx.class(c.label);
		ctx.class(&format!("start_len={}", c.start.len()));
		if let Some(e) = &c.end {
			ctx.class(&format!("end_len={}", e.len()));
		}
		ctx.class(&format!("occupancy={}", c.ports.iter().map(|p| format!("{}{}", p.port + 1, ["h", "c", "d"][p.ptype as usize])).collect::<String>()));
		ctx.class(if c.start[gs::TEAMS] != 0 { "teams_on" } else { "teams_off" });
		if must_reject {
			ctx.class("reject_class");
		}
		if !c.ports.is_empty() && c.start.iter().skip(4).any(|b| *b != 0) {
			let mut h = c.start.clone();
			h.extend_from_slice(c.end.as_deref().unwrap_or(&[]));
			ctx.nontrivial(rt::hash_bytes(&h));
		}
		ctx.sample_k(c.label, 3, || json!({"start_len": c.start.len(), "version": [c.start[0], c.start[1], c.start[2]], "end": c.end.as_ref().map(|e| rt::hex(e)), "ports": c.ports.iter().map(|p| format!("P{} type {}", p.port + 1, p.ptype)).collect::<Vec<_>>(), "must_reject": must_reject}));
	}
	let detail = json!({"start_len": c.start.len(), "end": c.end.as_ref().map(|e| rt::hex(e)), "reject_reason": want_start.as_ref().err().cloned().or_else(|| want_end.as_ref().and_then(|e| e.as_ref().err().cloned()))});
	let fail = |sig: &str, msg: String| Fail::new(format!("op=startend {}", sig), msg).with_file("slp", &bytes).with_detail(detail.clone());
	// Game Start / Game End reach the caller through several entry points: all must give the same blocks
	// (skip-frames needs a finished replay: it seeks to the Game End)
	let variant = match (rt::hash_bytes(&bytes) >> 20) % 6 {
		2 | 3 if c.end.is_none() => 0,
		4 if c.end.is_none() => 5,
		v => v,
	};
	if counting {
		ctx.class(["read:default", "read:default", "read:skip_frames", "read:skip_frames+hash", "read:embedded+skip_frames", "read:embedded"][variant as usize]);
	}
	let read = match variant {
		0 | 1 => rt::slp_read_default(&bytes),
		2 => rt::slp_read(&bytes, true, false),
		3 => rt::slp_read(&bytes, true, true),
		_ => {
			// the replay as the second member of a longer stream, reader positioned at its first byte
			let mut sib = m.clone();
			sib.end = match &m.end {
				EndSpec::One(b) => EndSpec::One(b.iter().map(|x| x ^ 0x2a).collect()),
				other => other.clone(),
			};
			let mut stream = if bytes.len() % 2 == 0 { sib.encode() } else { vec![0x7b; 1 + bytes.len() % 97] };
			let at = stream.len();
			stream.extend_from_slice(&bytes);
			let o = rt::slp_opts(variant == 4, false);
			rt::slp_read_embedded(&stream, at, Some(&o)).0
		}
	};
	let g = match read {
		Out::Ok(g) => {
			if must_reject {
				return Err(fail("accepted_illegal", format!("block with an illegal value was accepted: {:?}", detail["reject_reason"])));
			}
			g
		}
		Out::Err(e) => {
			if must_reject {
				return Ok(());
			}
			return Err(fail("rejected_legal", format!("legal start/end block rejected: {}", e)));
		}
		Out::Panic(p) => return Err(fail(&format!("panic~{}", rt::panic_site(&p)), p)),
	};
	if g.start.bytes.0 != c.start {
		return Err(fail("start_bytes", "raw start block not retained unchanged".into()));
	}
	let js = serde_json::to_string(&g.start).map_err(|e| fail("json", e.to_string()))?;
	let got = parse_json(js.as_bytes()).map_err(|e| fail("json", format!("start JSON does not parse: {}", e)))?;
	if let Some(d) = first_diff(&got, want_start.as_ref().unwrap(), "start") {
		let key: String = d.split(':').next().unwrap_or("").chars().filter(|c| !c.is_ascii_digit()).take(50).collect();
		return Err(fail(&format!("field {}", key), d));
	}
	// float bit patterns (JSON cannot carry NaN payloads)
	if g.start.damage_ratio.to_bits() != be32(&c.start, gs::DAMAGE_RATIO) {
		return Err(fail("field damage_ratio bits", "damage_ratio bits differ".into()));
	}
	for p in &g.start.players {
		let o = gs::PLAYERS + (p.port as usize) * gs::PLAYER_LEN;
		if p.offense_ratio.to_bits() != be32(&c.start, o + gs::P_OFFENSE) || p.defense_ratio.to_bits() != be32(&c.start, o + gs::P_DEFENSE) || p.model_scale.to_bits() != be32(&c.start, o + gs::P_SCALE) {
			return Err(fail("field player ratio bits", format!("{:?}: ratio/scale bits differ", p.port)));
		}
	}
	match (&g.end, &c.end) {
		(None, None) => {}
		(Some(ge), Some(ce)) => {
			if &ge.bytes.0 != ce {
				return Err(fail("end_bytes", "raw end block not retained unchanged".into()));
			}
			let js = serde_json::to_string(ge).map_err(|e| fail("json", e.to_string()))?;
			let got = parse_json(js.as_bytes()).map_err(|e| fail("json", format!("end JSON does not parse: {}", e)))?;
			if let Some(d) = first_diff(&got, want_end.as_ref().unwrap().as_ref().unwrap(), "end") {
				return Err(fail("end field", d));
			}
		}
		(a, b) => return Err(fail("end_presence", format!("end presence: game {} file {}", a.is_some(), b.is_some()))),
	}
	Ok(())
}

fn end_case(i: usize) -> Case {
	// 5 (1 byte) + 25 (2 bytes) + 15625 (6 bytes)
	let e = if i < 5 {
		vec![crate::gen::END_METHODS[i]]
	} else if i < 30 {
		let k = i - 5;
		vec![crate::gen::END_METHODS[k / 5], crate::gen::LRAS[k % 5]]
	} else {
		let mut k = i - 30;
		let mut b = vec![crate::gen::END_METHODS[k % 5]];
		k /= 5;
		b.push(crate::gen::LRAS[k % 5]);
		k /= 5;
		for _ in 0..4 {
			b.push(crate::gen::PLACEMENTS[k % 5]);
			k /= 5;
		}
		b
	};
	let ports = vec![PortPlan { port: 0, ics: false, ptype: 0 }, PortPlan { port: 1, ics: false, ptype: 1 }];
	let ver = match e.len() {
		1 => (1, 0, 0),
		2 => (2, 0, 0),
		_ => (3, 13, 0),
	};
	let start = gen_start(&mut Dna::new(&[]), ver, &ports, None);
	Case { start, end: Some(e), ports, label: "end_cross_product" }
}
const END_CASES: usize = 5 + 25 + 15625;

fn gen_case(dna: &[u8]) -> Case {
	let mut d = Dna::new(dna);
	let mode = d.u8();
	let class = d.below(10);
	let len = spec::START_CLASSES[class].1;
	// version bytes: usually the class's own version, sometimes unrelated (presence is defined by length)
	let ver = match d.u8() {
		0..=159 => {
			let (a, b) = spec::START_CLASSES[class].0;
			(a, b, d.u8())
		}
		_ => crate::gen::gen_version(&mut d),
	};
	// occupancy/type pattern: any subset incl. none, any of the 3 types
	let mask = d.below(16);
	let mut ports: Vec<PortPlan> = Vec::new();
	for p in 0..4u8 {
		if mask & (1 << p) != 0 {
			let b = d.u8();
			ports.push(PortPlan { port: p, ics: b >= 200, ptype: b % 3 });
		}
	}
	let mut start = gen_start(&mut d, ver, &ports, Some(len));
	// (the all-empty occupancy pattern is part of the quantifier: it must list zero players)
	// per-player mapped bytes over their full range
	for p in &ports {
		let o = gs::PLAYERS + p.port as usize * gs::PLAYER_LEN;
		for f in [gs::P_STOCKS, gs::P_COSTUME, gs::P_SHADE, gs::P_HANDICAP, gs::P_TEAM, gs::P_BITFIELD, gs::P_CPU] {
			if d.u8() >= 128 {
				start[o + f] = d.u8();
			}
		}
	}
	let mut label = "start_legal";
	let elen = spec::end_size((ver.0, ver.1));
	let mut end = match d.u8() {
		0..=39 => None,
		_ => {
			let l = [1usize, 2, 6, elen][d.below(4)];
			Some(crate::gen::gen_end_bytes(&mut d, l))
		}
	};
	if mode >= 200 {
		// reject classes: one illegal enum-like byte / invalid text
		label = "reject_class";
		let which = d.below(8);
		let port = d.below(4);
		match which {
			0 if len >= 352 => start[gs::UCF + 8 * port + 3] = 3 + d.u8() % 250,
			1 if len >= 352 => start[gs::UCF + 8 * port + 4 + d.below(3)] = 1 + d.u8() % 255,
			2 if len >= 701 => start[gs::LANGUAGE] = 2 + d.u8() % 254,
			3 if len >= 416 => {
				start[gs::NAME_TAG + 16 * port] = 0x82;
				start[gs::NAME_TAG + 16 * port + 1] = 0x00;
			}
			4 if len >= 584 => start[gs::NP_CODE + 10 * port + d.below(9)] = 0xFD + d.u8() % 3,
			5 if len >= 700 => {
				let o = gs::NP_UID + 29 * port;
				start[o] = 0xC3;
				start[o + 1] = 0x28;
			}
			6 if len >= 760 => {
				start[gs::MATCH_ID] = 0xFF;
				start[gs::MATCH_ID + 1] = b'x';
			}
			_ => {
				let mut e = end.take().unwrap_or_else(|| vec![0; elen]);
				let k = d.below(e.len());
				e[k] = match k {
					0 => [4u8, 5, 6, 8, 200, 255][d.below(6)],
					1 => [4u8, 5, 100, 254][d.below(4)],
					_ => [4u8, 5, 127, 128, 0xFE][d.below(5)],
				};
				end = Some(e);
			}
		}
	}
	Case { start, end, ports, label }
}

pub fn case(ctx: &Ctx, kind: &str, params: &Value, counting: bool) -> Result<(), Fail> {
	match kind {
		"end" => check(ctx, &end_case(params["i"].as_u64().unwrap_or(0) as usize), counting),
		_ => check(ctx, &gen_case(&dna_param(params)), counting),
	}
}

pub fn run(ctx: &Ctx) -> usize {
	ctx.set_rule("Game Start blocks of each of the ten length classes (length varied independently of the version bytes), every occupancy/type pattern of the four ports, teams on/off, mapped bytes over their full range (unmapped bytes random), legal UCF/language/Shift-JIS/UTF-8 content; Game End blocks: the full cross product of the three length classes x method x LRAS x placements (15,655 blocks) enumerated; reject classes with one illegal enum-like byte or invalid text; oracle: the JSON rendering of Start/End re-read with the engine's order-preserving JSON reader equals a document built from the raw block at the spec offsets (key set and order included, optionals absent when the block is short, null for team/cpu_level when not applicable), float fields bit-equal, raw block retained; illegal blocks must be rejected with an error; non-trivial = >=1 player and a non-zero mapped byte; distinct by xxh3(start block, end block)");
	ctx.assume("serde_json's text for a finite f32 defines its JSON rendering; non-finite floats render as null");
	let mut violations = 0;
	if run_enum(ctx, "end", END_CASES, |i| json!({ "i": i }), |i| check(ctx, &end_case(i), true)).is_some() {
		violations += 1;
	} else {
		ctx.put("end_blocks_enumerated", json!(END_CASES));
	}
	if run_dna(ctx, "dna", ctx.n(100_000, 5_000_000), 2048, |dna, counting| check(ctx, &gen_case(dna), counting)).is_some() {
		violations += 1;
	}
	violations
}
