//! C18 — .slpp is a tar starting with peppi.json whose entries agree with each other.

use serde_json::{json, Value};

use super::*;
use crate::cmp::{diff_games, CmpOpts};
use crate::rt::{self, run_dna, run_enum, Comp, Out};
use crate::tarfmt::{entry_data, parse_json, rebuild, walk_tar};

fn expected_names(m: &ModelGame) -> Vec<&'static str> {
	let mut v = vec!["peppi.json", "metadata.json", "start.json", "start.raw"];
	if m.end.bytes().is_some() {
		v.push("end.json");
		v.push("end.raw");
	}
	if m.gecko.is_some() {
		v.push("gecko_codes.raw");
	}
	v.push("frames.arrow");
	v
}

/// names whose final path component is not one the reader dispatches on (incl. members without a
/// final component such as `./` written by `tar cf x.tar .`, and non-UTF-8 names)
const SAFE_NAMES: [&[u8]; 22] = [
	b"README", b"notes.txt", b"extra.json", b"frames.arrow.bak", b"start.raw.orig", b"x/y/z.bin", b"peppi.json.old", b"thumb.png", b"a", b"end.raw~", b"metadata.yaml",
	b"dir/inner.dat", b"./", b".", b"..", b"extras/", b"foo/..", b"/", b"caf\xe9.txt", b"\xff\xfe", b"./.hidden", b"PEPPI.JSON",
];

struct Case {
	m: ModelGame,
	comp: Comp,
	hash: bool,
	/// (index of the known entry it is placed before, name, data)
	extras: Vec<(usize, Vec<u8>, Vec<u8>)>,
	/// encoded file when it is not simply m.encode() (e.g. a Gecko list in a version below 3.3)
	bytes: Option<Vec<u8>>,
}

fn gen_case(dna: &[u8], cfg: &crate::gen::GenCfg) -> Case {
	let mut d = Dna::new(dna);
	let f = d.u8();
	let comp = Comp::ALL[(f % 3) as usize];
	let hash = f & 0x40 != 0;
	let nextra = if f & 0x80 != 0 { 1 + d.below(4) } else { 0 };
	let mut extras = Vec::new();
	for _ in 0..nextra {
		let pos = d.below(8);
		let name: Vec<u8> = match d.u8() {
			0..=179 => SAFE_NAMES[d.below(SAFE_NAMES.len())].to_vec(),
			180..=219 => format!("u{}.dat", d.u16()).into_bytes(),
			// paths longer than the 100-byte tar header field (carried by a GNU long-name record); some are
			// built so that the first 100 bytes end in the name of an entry the reader dispatches on
			_ => {
				let known = ["peppi.json", "metadata.json", "start.json", "start.raw", "end.json", "end.raw", "gecko_codes.raw", "frames.arrow"][d.below(8)];
				let tail = [".orig", ".bak", "~", "/inner.bin", ".d/x"][d.below(5)];
				if d.u8() < 170 {
					let pad = 100 - known.len() - 1;
					format!("{}/{}{}", "d".repeat(pad), known, tail).into_bytes()
				} else {
					format!("{}/{}{}", "long".repeat(26 + d.below(30)), known, tail).into_bytes()
				}
			}
		};
		let len = match d.u8() {
			0..=49 => 0,
			50..=199 => d.below(600),
			_ => d.below(2001),
		};
		let mut data = vec![0u8; if name.ends_with(b"/") || name == b"." || name == b".." { 0 } else { len }];
		crate::gen::SplitMix(d.u32() as u64).fill(&mut data);
		extras.push((pos, name, data));
	}
	Case { m: crate::gen::gen_model(&mut d, cfg), comp, hash, extras, bytes: None }
}

fn check(ctx: &Ctx, c: &Case, label: &str, counting: bool) -> Result<(), Fail> {
	let m = &c.m;
	let bytes = c.bytes.clone().unwrap_or_else(|| m.encode());
	let want = expected_names(m);
	if counting {
		ctx.eval();
		let _ = classify(ctx, m);
		ctx.class(label);
		ctx.class(&format!("compression={}", c.comp.name()));
		ctx.class(&format!("entries={}", want.len()));
		if !c.extras.is_empty() {
			ctx.class("extra_entries");
		}
		if want.len() == 8 || !c.extras.is_empty() {
			let mut h = bytes.clone();
			h.push(c.comp as u8);
			for (p, n, dta) in &c.extras {
				h.push(*p as u8);
				h.extend_from_slice(n);
				h.extend_from_slice(&(dta.len() as u32).to_le_bytes());
			}
			ctx.nontrivial(rt::hash_bytes(&h));
		}
		ctx.sample_k(label, 4, || json!({"model": m.summary(), "compression": c.comp.name(), "expected_entries": want, "extra_entries": c.extras.iter().map(|(p, n, d)| json!([p, String::from_utf8_lossy(n), d.len()])).collect::<Vec<_>>()}));
	}
	let detail = json!({"model": m.summary(), "compression": c.comp.name()});
	let over_limit = m.metadata.as_ref().map_or(false, |t| crate::model::Meta::Map(t.clone()).depth() > 127);
	if over_limit && matches!(rt::slp_read_default(&bytes), Out::Err(_)) {
		return Ok(()); // beyond the metadata nesting limit the reader may refuse
	}
	let g = rt::slp_read(&bytes, false, c.hash).expect_ok("slippi::read").map_err(|f| f.with_file("slp", &bytes))?;
	let p = rt::slpp_write(g, c.comp).expect_ok("peppi::write").map_err(|f| f.with_file("slp", &bytes).with_detail(detail.clone()))?;
	let fail = |sig: &str, msg: String| Fail::new(format!("op=archive {}", sig), msg).with_file("slp", &bytes).with_file("slpp", &p).with_detail(detail.clone());
	if p.len() < 10 || &p[..10] != b"peppi.json" {
		return Err(fail("signature", "archive does not start with the documented signature `peppi.json`".into()));
	}
	let (entries, end_off) = walk_tar(&p).map_err(|e| fail("tar", e))?;
	let names: Vec<&str> = entries.iter().map(|e| e.name.as_str()).collect();
	// frames.arrow is required (and last) when the game has frames; for a zero-frame game the property leaves
	// it open, so both shapes are accepted there
	let without_frames: Vec<&str> = want[..want.len() - 1].to_vec();
	if names != want && !(m.frames.is_empty() && names == without_frames) {
		return Err(fail("entries", format!("entries {:?}, expected {:?}", names, want)));
	}
	for e in &entries {
		if !e.cksum_ok {
			return Err(fail("checksum", format!("header checksum of {} invalid", e.name)));
		}
		if !(e.typeflag == b'0' || e.typeflag == 0) {
			return Err(fail("typeflag", format!("{} is not a regular file entry", e.name)));
		}
		// any tar dialect is a tar archive: GNU ("ustar  \0"), POSIX ("ustar\0" + "00") or v7 (no magic)
		let m8 = &e.magic;
		if !(m8 == b"ustar  \0" || &m8[..6] == b"ustar\0" || m8.iter().all(|b| *b == 0)) {
			return Err(fail("magic", format!("{} carries an unknown tar magic {:?}", e.name, m8)));
		}
	}
	if p.len() < end_off + 1024 || p[end_off..].iter().any(|b| *b != 0) || p.len() % 512 != 0 {
		return Err(fail("trailer", "archive does not end with the two zero blocks".into()));
	}
	// what the reader reconstructs
	let g2 = rt::slpp_read(&p, false).expect_ok("peppi::read").map_err(|f| f.with_file("slp", &bytes).with_file("slpp", &p))?;
	let data = |n: &str| entry_data(&p, entries.iter().find(|e| e.name == n).unwrap());
	for n in names.iter().filter(|n| n.ends_with(".json")) {
		parse_json(data(n)).map_err(|e| fail("json", format!("{} is not valid JSON: {}", n, e)))?;
	}
	// "equal to the JSON rendering of what the reader reconstructs": compared as ordered JSON trees (so
	// whitespace / pretty-printing is immaterial, key order and values are not)
	let want_json = |n: &str, v: Vec<u8>| -> Result<(), Fail> {
		if !names.contains(&n) {
			return Ok(());
		}
		let a = parse_json(data(n)).map_err(|e| fail("json", format!("{}: {}", n, e)))?;
		let b = parse_json(&v).map_err(|e| fail("json", format!("rendering of {}: {}", n, e)))?;
		if a != b {
			return Err(fail(&format!("json_mismatch {}", n), format!("{} differs from the JSON rendering of what the reader reconstructs: {} vs {}", n, crate::cmp::trunc(&String::from_utf8_lossy(data(n))), crate::cmp::trunc(&String::from_utf8_lossy(&v)))));
		}
		Ok(())
	};
	want_json("start.json", serde_json::to_vec(&g2.start).unwrap())?;
	want_json("metadata.json", serde_json::to_vec(&g2.metadata).unwrap())?;
	want_json("peppi.json", serde_json::to_vec(&peppi::io::peppi::Peppi { version: peppi::io::peppi::CURRENT_VERSION, slp_hash: g2.hash.clone(), quirks: g2.quirks }).unwrap())?;
	if data("start.raw") != &m.start[..] {
		return Err(fail("start.raw", "start.raw differs from the raw start block".into()));
	}
	if let Some(e) = &g2.end {
		want_json("end.json", serde_json::to_vec(e).unwrap())?;
		if Some(&data("end.raw").to_vec()) != m.end.bytes() {
			return Err(fail("end.raw", "end.raw differs from the raw end block".into()));
		}
	}
	if let Some(gk) = &m.gecko {
		let mut w = gk.actual.to_le_bytes().to_vec();
		w.extend_from_slice(&gk.bytes);
		if data("gecko_codes.raw") != &w[..] {
			return Err(fail("gecko_codes.raw", "gecko blob differs".into()));
		}
	}
	if c.hash != g2.hash.is_some() {
		return Err(fail("hash", "stored hash presence differs from request".into()));
	}
	// determinism: an independent read of the same file gives the identical archive
	let gb = rt::slp_read(&bytes, false, c.hash).expect_ok("slippi::read")?;
	let p2 = rt::slpp_write(gb, c.comp).expect_ok("peppi::write(2)")?;
	if p2 != p {
		return Err(fail("nondeterministic", "writing the same game twice gave different bytes".into()));
	}
	// unknown entries are ignored
	if !c.extras.is_empty() {
		let mut list: Vec<(Vec<u8>, Vec<u8>)> = Vec::new();
		for (i, e) in entries.iter().enumerate() {
			for (pos, n, d) in &c.extras {
				if *pos % entries.len() == i {
					list.push((n.clone(), d.clone()));
				}
			}
			list.push((e.name.clone().into_bytes(), entry_data(&p, e).to_vec()));
		}
		let spliced = rebuild(&list);
		let g3 = match rt::slpp_read(&spliced, false) {
			Out::Ok(g) => g,
			Out::Err(e) => return Err(fail("extra_rejected", format!("archive with unknown extra entries rejected: {}", e)).with_file("spliced.slpp", &spliced)),
			Out::Panic(pn) => return Err(fail("extra_panic", pn).with_file("spliced.slpp", &spliced)),
		};
		diff_games(&g3, &g2, &CmpOpts::default()).map_err(|e| fail("extra_changed_game", format!("unknown entries changed the game: {}", e)).with_file("spliced.slpp", &spliced))?;
	}
	Ok(())
}

/// peppi.json rewritten with format version `v`: rejected below the minimum, accepted otherwise
fn version_gate(ctx: &Ctx, v: (u8, u8, u8), counting: bool) -> Result<(), Fail> {
	thread_local! {
		static BASE: (Vec<(Vec<u8>, Vec<u8>)>, Vec<u8>) = {
			let m = crate::gen::simple_model((3, 16, 0), &[(0, false), (1, true)], 2, 5, crate::gen::Pattern::Random, 1, true);
			let b = m.encode();
			let g = match rt::slp_read(&b, false, true) { Out::Ok(g) => g, _ => panic!("base") };
			let p = match rt::slpp_write(g, Comp::None) { Out::Ok(p) => p, _ => panic!("base") };
			let (entries, _) = walk_tar(&p).unwrap();
			(entries.iter().map(|e| (e.name.clone().into_bytes(), entry_data(&p, e).to_vec())).collect(), p)
		};
	}
	if counting {
		ctx.eval();
		ctx.class(if v < (2, 0, 0) { "format_version_below_min" } else { "format_version_ok" });
		ctx.nontrivial(rt::hash_bytes(&[9, v.0, v.1, v.2]));
	}
	BASE.with(|(list, orig)| {
		let mut list = list.clone();
		let pj = String::from_utf8(list[0].1.clone()).unwrap();
		if !pj.contains("\"version\":[2,0,0]") {
			return Err(Fail::new("machinery", format!("peppi.json has unexpected shape: {}", pj)));
		}
		list[0].1 = pj.replace("\"version\":[2,0,0]", &format!("\"version\":[{},{},{}]", v.0, v.1, v.2)).into_bytes();
		let arch = rebuild(&list);
		let d = json!({"format_version": [v.0, v.1, v.2]});
		// pinned by the property: below the minimum -> rejected; the version the writer itself produces -> accepted.
		// Versions above the current one are the reader's choice (accept, or refuse as "too new"); if accepted, the
		// game must be the same.
		let below = v < (2, 0, 0);
		let current = v == (2, 0, 0);
		match (rt::slpp_read(&arch, false), below) {
			(Out::Err(_), true) => Ok(()),
			(Out::Ok(_), true) => Err(Fail::new("op=archive version_gate accepted", format!("format version {:?} below the minimum was accepted", v)).with_detail(d)),
			(Out::Ok(g), false) => {
				let g0 = rt::slpp_read(orig, false).expect_ok("peppi::read")?;
				diff_games(&g, &g0, &CmpOpts::default()).map_err(|e| Fail::new("op=archive version_gate game", e).with_detail(d))
			}
			(Out::Err(e), false) if current => Err(Fail::new("op=archive version_gate rejected", format!("the writer's own format version {:?} was rejected: {}", v, e)).with_detail(d)),
			(Out::Err(_), false) => Ok(()),
			(Out::Panic(p), _) => Err(Fail::new("op=archive version_gate panic", p).with_detail(d)),
		}
	})
}

const GATE: [(u8, u8, u8); 14] = [(0, 0, 0), (1, 0, 0), (1, 255, 255), (1, 9, 9), (2, 0, 0), (2, 0, 1), (2, 1, 0), (3, 0, 0), (255, 255, 255), (0, 255, 255), (1, 255, 0), (2, 255, 255), (10, 0, 0), (0, 2, 0)];

fn forced(i: usize) -> Case {
	let (m, comp, hash, _) = super::c02::forced_model_pub(i);
	let extras = if i % 2 == 0 {
		let n = SAFE_NAMES[(i / 2) % SAFE_NAMES.len()].to_vec();
		let dl = if n.ends_with(b"/") || n == b"." || n == b".." { 0 } else { i % 700 };
		vec![(i % 8, n, vec![0xEE; dl])]
	} else {
		vec![]
	};
	if i % 9 == 4 {
		// a Gecko list carried by a file older than 3.3 (the reader accepts the events in any version that
		// declares them): the blob is "present", so it must be in the archive and come back
		let ver = [(3, 2, 0), (3, 0, 0), (3, 2, 255), (2, 0, 1)][(i / 9) % 4];
		let mut m = crate::gen::simple_model(ver, &[(0, false), (1, false)], 2, i as u64, crate::gen::Pattern::Random, 1, true);
		m.gecko = Some(crate::model::Gecko { bytes: vec![0x3C; 1024], actual: 700 });
		let mut raw = m.raw();
		raw.table.push((spec::EV_GECKO, 700));
		raw.table.push((spec::EV_SPLITTER, 516));
		return Case { m, comp, hash, extras, bytes: Some(raw.serialize()) };
	}
	Case { m, comp, hash, extras, bytes: None }
}

pub fn case(ctx: &Ctx, kind: &str, params: &Value, counting: bool) -> Result<(), Fail> {
	match kind {
		"gate" => {
			let a = params["v"].as_array().cloned().unwrap_or_default();
			let g = |i: usize| a.get(i).and_then(|x| x.as_u64()).unwrap_or(0) as u8;
			version_gate(ctx, (g(0), g(1), g(2)), counting)
		}
		"gate_dna" => {
			let d = dna_param(params);
			version_gate(ctx, gate_version(&d), counting)
		}
		"forced" => check(ctx, &forced(params["i"].as_u64().unwrap_or(0) as usize), "forced", counting),
		_ => check(ctx, &gen_case(&dna_param(params), &cfg(ctx)), "dna", counting),
	}
}

fn gate_version(dna: &[u8]) -> (u8, u8, u8) {
	let mut d = Dna::new(dna);
	match d.u8() {
		0..=127 => (d.below(4) as u8, d.u8(), d.u8()),
		_ => (d.u8(), d.u8(), d.u8()),
	}
}

fn cfg(ctx: &Ctx) -> crate::gen::GenCfg {
	let mut c = cfg_for(ctx);
	c.max_frames = ctx.n(12, 100);
	c
}

pub fn run(ctx: &Ctx) -> usize {
	ctx.set_rule("generated replays x compression x {hash requested or not}; archives walked with the engine's own tar reader; oracle: entry list is exactly peppi.json, metadata.json, start.json, start.raw, [end.json, end.raw], [gecko_codes.raw], frames.arrow in that order, bytes 0..9 are `peppi.json`, header checksums valid, GNU magic, regular-file entries, two-zero-block trailer; every *.json parses (engine's JSON reader) and is byte-equal to serde_json's rendering of what peppi::read reconstructs; *.raw equal the raw blocks; two independent writes are identical; 1-4 extra entries with names the reader does not dispatch on, spliced before any known entry with the engine's tar writer, do not change the read game; peppi.json rewritten with a boundary set + random format-version triples: below 2.0.0 must be rejected, 2.0.0 (the writer's own) must be accepted, above it the reader may accept (then the game must be identical) or refuse; non-trivial = longest entry list (end + gecko + frames) or extra entries present; distinct by xxh3(file, compression, extras)");
	ctx.assume("frames.arrow is present (and last) also for zero-frame games (D3's repair); the property only requires it when the game has frames");
	let mut violations = 0;
	if run_enum(ctx, "forced", super::c02::FORCED.len() * 6 * ctx.n(2, 16), |i| json!({ "i": i }), |i| check(ctx, &forced(i), "forced", true)).is_some() {
		violations += 1;
	}
	if run_enum(ctx, "gate", GATE.len(), |i| json!({"v": [GATE[i].0, GATE[i].1, GATE[i].2]}), |i| version_gate(ctx, GATE[i], true)).is_some() {
		violations += 1;
	}
	if run_dna(ctx, "gate_dna", ctx.n(20_000, 2_000_000), 8, |dna, counting| version_gate(ctx, gate_version(dna), counting)).is_some() {
		violations += 1;
	}
	let cfg = cfg(ctx);
	if run_dna(ctx, "dna", ctx.n(6_000, 300_000), dna_max(ctx), |dna, counting| check(ctx, &gen_case(dna, &cfg), "dna", counting)).is_some() {
		violations += 1;
	}
	violations
}
