//! Operation sequences over one game (shared by C02, C10, C17).
//!
//! A replay is read once and then pushed through a generated sequence of format hops:
//! `.slp` write + read (full / skip-frames / with hash), `.slpp` write (any compression) + read
//! (full / skip-frames), Arrow export + import. A small reference model tracks what each hop is
//! allowed to change (skip-frames drops the frame rows; the `.slp` skip-frames read also drops the
//! Gecko list because it seeks over it; hashes are recomputed by hashing reads, dropped by other
//! `.slp` reads, carried by `.slpp`), and after *every* hop the game is compared with that model:
//! start / end / metadata always equal the original, and as long as no lossy hop has happened the
//! game still serialises to the original file byte for byte. The whole sequence is one generated
//! value, so it shrinks as one.

use peppi::frame::immutable::Frame;
use peppi::game::immutable::Game;
use peppi::game::port_occupancy;
use serde_json::{json, Value};

use super::*;
use crate::rt::{self, Comp};

#[derive(Clone, Copy, Debug, PartialEq, Eq)]
pub enum Op {
	/// slippi::write then slippi::read(skip_frames = false)
	Slp { hash: bool },
	/// slippi::write then slippi::read(skip_frames = true)
	SlpSkip { hash: bool },
	/// peppi::write then peppi::read
	Slpp(Comp),
	/// peppi::write then peppi::read(skip_frames = true)
	SlppSkip(Comp),
	/// frames -> Arrow struct array -> frames
	Arrow,
}

impl Op {
	pub fn name(&self) -> String {
		match self {
			Op::Slp { hash } => format!("slp(hash={})", hash),
			Op::SlpSkip { hash } => format!("slp_skip(hash={})", hash),
			Op::Slpp(c) => format!("slpp({})", c.name()),
			Op::SlppSkip(c) => format!("slpp_skip({})", c.name()),
			Op::Arrow => "arrow".into(),
		}
	}
	pub fn lossy(&self) -> bool {
		matches!(self, Op::SlpSkip { .. } | Op::SlppSkip(_))
	}
}

pub fn gen_ops(d: &mut Dna, allow_skip: bool, max: usize) -> Vec<Op> {
	let n = 2 + d.below(max.saturating_sub(1).max(1));
	(0..n)
		.map(|_| {
			let c = Comp::ALL[d.below(3)];
			match d.u8() {
				0..=69 => Op::Slpp(c),
				70..=119 => Op::Slp { hash: d.chance(100) },
				120..=159 => Op::Arrow,
				160..=209 if allow_skip => Op::SlppSkip(c),
				210..=255 if allow_skip => Op::SlpSkip { hash: d.chance(100) },
				160..=209 => Op::Slpp(c),
				_ => Op::Slp { hash: d.chance(128) },
			}
		})
		.collect()
}

fn start_end_meta_eq(a: &Game, b: &Game) -> Result<(), String> {
	if a.start.bytes.0 != b.start.bytes.0 || format!("{:?}", a.start) != format!("{:?}", b.start) {
		return Err("start differs".into());
	}
	match (&a.end, &b.end) {
		(Some(x), Some(y)) if x.bytes.0 == y.bytes.0 && format!("{:?}", x) == format!("{:?}", y) => {}
		(None, None) => {}
		_ => return Err("end differs".into()),
	}
	if crate::cmp::meta_string(&a.metadata) != crate::cmp::meta_string(&b.metadata) {
		return Err("metadata differs".into());
	}
	Ok(())
}

/// Runs the sequence. `bytes` must be a well-formed replay of a supported version; when `ops`
/// contains a skip-frames hop it must also be finished (Game End last).
pub fn run_chain(bytes: &[u8], ops: &[Op], detail: &Value) -> Result<(), Fail> {
	let names: Vec<String> = ops.iter().map(|o| o.name()).collect();
	let mk = |step: usize, sig: &str, msg: String| {
		Fail::new(format!("op=chain {}", sig), format!("after hop {} of [{}]: {}", step, names.join(" -> "), msg)).with_file("slp", bytes).with_detail(json!({"ops": names, "failed_at_hop": step, "case": detail}))
	};
	let wrap = |step: usize, f: Fail| {
		let mut f = f.with_file("slp", bytes).with_detail(json!({"ops": names, "failed_at_hop": step, "case": detail}));
		f.msg = format!("at hop {} of [{}]: {}", step, names.join(" -> "), f.msg);
		f.sig = format!("op=chain {}", f.sig.trim_start_matches("op="));
		f
	};
	let orig = rt::slp_read(bytes, false, false).expect_ok("slippi::read").map_err(|f| wrap(0, f))?;
	let mut g = rt::slp_read(bytes, false, false).expect_ok("slippi::read").map_err(|f| wrap(0, f))?;
	// reference model of what the hops may have changed so far
	let mut frames_kept = true;
	let mut gecko_kept = true;
	let mut hash: Option<String> = None;
	for (i, op) in ops.iter().enumerate() {
		let step = i + 1;
		g = match *op {
			Op::Slp { hash: h } | Op::SlpSkip { hash: h } => {
				let skip = matches!(op, Op::SlpSkip { .. });
				let w = rt::slp_write(&g).expect_ok("slippi::write").map_err(|f| wrap(step, f))?;
				if frames_kept && gecko_kept && w != bytes {
					let n = w.len().min(bytes.len());
					let at = (0..n).find(|&k| w[k] != bytes[k]).unwrap_or(n);
					return Err(mk(step, "bytes", format!("the game no longer serialises to the original file (first difference at offset {}, lengths {} vs {})", at, bytes.len(), w.len())).with_file("written.slp", &w));
				}
				let g2 = rt::slp_read(&w, skip, h).expect_ok(if skip { "slippi::read(skip_frames)" } else { "slippi::read" }).map_err(|f| wrap(step, f).with_file("written.slp", &w))?;
				hash = if h { Some(format!("xxh3:{:016x}", xxhash_rust::xxh3::xxh3_64(&w))) } else { None };
				if skip {
					frames_kept = false;
					gecko_kept = false;
				}
				g2
			}
			Op::Slpp(c) | Op::SlppSkip(c) => {
				let skip = matches!(op, Op::SlppSkip(_));
				let p = rt::slpp_write(g, c).expect_ok("peppi::write").map_err(|f| wrap(step, f))?;
				let g2 = rt::slpp_read(&p, skip).expect_ok(if skip { "peppi::read(skip_frames)" } else { "peppi::read" }).map_err(|f| wrap(step, f).with_file("slpp", &p))?;
				if skip {
					frames_kept = false;
				}
				g2
			}
			Op::Arrow => {
				let version = g.start.slippi.version;
				let occ = port_occupancy(&g.start);
				let Game { start, end, frames, metadata, gecko_codes, hash, quirks } = g;
				let back = match rt::guard(|| Ok::<_, String>(Frame::from_struct_array(frames.into_struct_array(version, &occ), version))) {
					rt::Out::Ok(f) => f,
					rt::Out::Panic(p) => return Err(mk(step, &format!("arrow panic~{}", rt::panic_site(&p)), format!("Arrow export/import panicked: {}", p))),
					rt::Out::Err(e) => return Err(mk(step, "arrow err", e)),
				};
				Game { start, end, frames: back, metadata, gecko_codes, hash, quirks }
			}
		};
		// invariants after every hop
		start_end_meta_eq(&g, &orig).map_err(|e| mk(step, "sem", e))?;
		if g.hash != hash {
			return Err(mk(step, "hash", format!("hash is {:?}, expected {:?}", g.hash, hash)));
		}
		if frames_kept {
			if g.frames.len() != orig.frames.len() {
				return Err(mk(step, "rows", format!("{} frame rows, the original has {}", g.frames.len(), orig.frames.len())));
			}
		} else if g.frames.len() != 0 {
			return Err(mk(step, "rows", format!("{} frame rows after a skip-frames hop", g.frames.len())));
		}
		if !frames_kept && g.frames.ports.len() != orig.frames.ports.len() {
			return Err(mk(step, "ports", format!("{} port columns after a skip-frames hop, the original has {}", g.frames.ports.len(), orig.frames.ports.len())));
		}
		let gecko_now = g.gecko_codes.as_ref().map(|c| (c.actual_size, c.bytes.clone()));
		let gecko_orig = orig.gecko_codes.as_ref().map(|c| (c.actual_size, c.bytes.clone()));
		if gecko_kept && gecko_now != gecko_orig {
			return Err(mk(step, "gecko", "Gecko codes differ from the original".into()));
		}
		// (the quirk flag describes the event stream, which a skip-frames read does not look at)
		if frames_kept && g.quirks.as_ref().map_or(false, |q| q.double_game_end) != orig.quirks.as_ref().map_or(false, |q| q.double_game_end) {
			return Err(mk(step, "quirks", "double_game_end quirk changed".into()));
		}
	}
	// the final game serialises: to the original bytes if nothing was dropped, otherwise to a file
	// that reads back as the same start / end / metadata
	let w = rt::slp_write(&g).expect_ok("slippi::write(final)").map_err(|f| wrap(ops.len() + 1, f))?;
	if frames_kept && gecko_kept {
		if w != bytes {
			let n = w.len().min(bytes.len());
			let at = (0..n).find(|&k| w[k] != bytes[k]).unwrap_or(n);
			return Err(mk(ops.len() + 1, "bytes", format!("the final game does not serialise to the original file (first difference at offset {}, lengths {} vs {})", at, bytes.len(), w.len())).with_file("written.slp", &w));
		}
	} else {
		let re = rt::slp_read(&w, false, false).expect_ok("slippi::read(final)").map_err(|f| wrap(ops.len() + 1, f).with_file("written.slp", &w))?;
		start_end_meta_eq(&re, &orig).map_err(|e| mk(ops.len() + 1, "final_sem", e))?;
	}
	Ok(())
}
