//! C07 — a replay file cut short at any byte never yields a partial game, panic or hang.
//! Fault enumeration: every proper prefix of small files, boundary-focused + random cuts of larger ones.

use std::sync::atomic::{AtomicBool, AtomicU64, AtomicUsize, Ordering};
use std::sync::{Arc, Mutex};

use serde_json::{json, Value};

use super::*;
use crate::cmp::{diff_games, CmpOpts};
use crate::gen::{GenCfg, SplitMix};
use crate::model::EndSpec;
use crate::rt::{self, Comp, Out};
use crate::tarfmt::walk_tar;
use crate::watch;
use peppi::game::immutable::Game;

fn seeded_dna(seed: u64, n: usize) -> Vec<u8> {
	let mut b = vec![0u8; n];
	SplitMix(seed).fill(&mut b);
	b
}

fn finished_model(seed: u64, cfg: &GenCfg) -> ModelGame {
	let mut cfg = cfg.clone();
	cfg.finished = true;
	let mut m = model_from_dna(&seeded_dna(seed, 1024), &cfg);
	if m.end == EndSpec::None {
		m.end = EndSpec::One(vec![2; spec::end_size(m.v())].iter().enumerate().map(|(i, _)| if i == 0 { 2 } else if i == 1 { 255 } else { 0xFF }).collect());
	}
	// every prefix is re-parsed, so the sweeps are quadratic in the file length: keep the bulky / wide metadata
	// classes (which go up to > 1 MiB in the shared generator) to a size an exhaustive sweep can afford
	if let Some(md) = m.metadata.as_mut() {
		md.truncate(24);
	}
	m
}

// ---- .slp ---------------------------------------------------------------------------------------

fn slp_region(m: &ModelGame, cut: usize, len: usize) -> &'static str {
	let raw = m.raw();
	let offs = raw.event_offsets();
	if cut < 15 {
		"slp:header"
	} else if cut < offs[0] {
		"slp:payload_table"
	} else if cut + 1 == len {
		"slp:last_byte"
	} else if cut >= *offs.last().unwrap() {
		"slp:metadata_or_closing"
	} else {
		let k = offs.windows(2).position(|w| cut >= w[0] && cut < w[1]).unwrap();
		let at_boundary = cut == offs[k];
		match (raw.events[k].code, at_boundary) {
			(spec::EV_GAME_START, _) => "slp:game_start",
			(spec::EV_SPLITTER, _) => "slp:splitter_block",
			(spec::EV_GAME_END, _) => "slp:game_end",
			(_, true) => "slp:between_frame_events",
			(_, false) => "slp:inside_frame_event",
		}
	}
}

fn slp_cut(bytes: &[u8], cut: usize, skip: bool) -> Result<(), Fail> {
	// hash on for odd cuts: the skip path differs with hashing (reads instead of seeking)
	let hash = cut % 2 == 1;
	let mut r = crate::readers::SchedReader::new(&bytes[..cut], crate::readers::Schedule::Full);
	let o = rt::slp_opts(skip, hash);
	let out = rt::guard(|| peppi::io::slippi::read(&mut r, Some(&o)));
	if r.over_budget {
		return Err(Fail::new(
			format!("op=truncated slp no_progress skip={} hash={}", skip, hash),
			format!("file of {} bytes cut at {}: the reader made {} read calls without finishing (loops without consuming input; skip_frames={}, compute_hash={})", bytes.len(), cut, r.reads, skip, hash),
		));
	}
	// the same cut with the `debug` option (dumps event payloads into a directory): one cut in 64 of small files
	if bytes.len() <= 4096 && (cut * 2654435761usize) >> 7 & 63 == 7 && rt::debug_budget_take() {
		let p = rt::with_debug_dir(|dir| {
			let o = peppi::io::slippi::de::Opts { skip_frames: skip, compute_hash: hash, debug: Some(peppi::io::slippi::de::Debug { dir: dir.to_path_buf() }) };
			let mut r = crate::readers::SchedReader::new(&bytes[..cut], crate::readers::Schedule::Full);
			match rt::guard(|| peppi::io::slippi::read(&mut r, Some(&o))) {
				Out::Panic(p) => Some(Err(p)),
				Out::Ok(_) => Some(Ok(())),
				Out::Err(_) => None,
			}
		});
		match p {
			Some(Err(p)) => return Err(Fail::new(format!("op=truncated slp panic debug~{}", rt::panic_site(&p)), format!("cut at {} (skip_frames={}, compute_hash={}, debug=Some(dir)): {}", cut, skip, hash, p))),
			Some(Ok(())) => return Err(Fail::new(format!("op=truncated slp accepted skip={} debug", skip), format!("file of {} bytes cut at {} was read as a game (debug option set)", bytes.len(), cut))),
			None => {}
		}
	}
	match out {
		Out::Err(_) => Ok(()),
		Out::Ok(g) => Err(Fail::new(
			format!("op=truncated slp accepted skip={}", skip),
			format!("file of {} bytes cut at {} was read as a game with {} frames (skip_frames={}, compute_hash={})", bytes.len(), cut, g.frames.len(), skip, hash),
		)),
		Out::Panic(p) => Err(Fail::new(format!("op=truncated slp panic~{}", rt::panic_site(&p)), format!("cut at {} (skip_frames={}, compute_hash={}): {}", cut, skip, hash, p))),
	}
}

fn slp_offsets(m: &ModelGame, len: usize, exhaustive: bool, seed: u64) -> Vec<usize> {
	if exhaustive {
		return (0..len).collect();
	}
	let mut v: Vec<usize> = Vec::new();
	for o in m.raw().event_offsets() {
		for d in 0..5usize {
			let c = (o + d).saturating_sub(2);
			if c < len {
				v.push(c);
			}
		}
	}
	let mut r = SplitMix(seed);
	// (files beyond 200 KB get fewer random cuts: each cut re-parses the prefix)
	for _ in 0..(if len > 200_000 { 200 } else { 2000.min(len) }) {
		v.push(r.below(len));
	}
	for c in [0, 1, 10, 11, 14, 15, 16, len - 1, len - 2] {
		if c < len {
			v.push(c);
		}
	}
	v.sort();
	v.dedup();
	v
}

fn slp_file(ctx: &Ctx, m: &ModelGame, exhaustive: bool, seed: u64) -> Result<(), (Fail, Value)> {
	let bytes = m.encode();
	let len = bytes.len();
	// the untruncated file must read (else the generator is wrong, not peppi)
	if let Out::Err(e) | Out::Panic(e) = rt::slp_read(&bytes, false, false) {
		return Err((Fail::new("op=truncated base", format!("untruncated file does not read: {}", e)).with_file("slp", &bytes), json!({})));
	}
	ctx.class(if exhaustive { "slp_file_exhaustive" } else { "slp_file_sampled" });
	ctx.class(regime(m));
	for cut in slp_offsets(m, len, exhaustive, seed) {
		for skip in [false, true] {
			ctx.eval();
			let region = slp_region(m, cut, len);
			ctx.class(region);
			if cut >= 15 {
				ctx.nontrivial(rt::hash_bytes(&[&bytes[..], &cut.to_le_bytes(), &[skip as u8]].concat()));
			}
			slp_cut(&bytes, cut, skip).map_err(|f| {
				(f.with_file("slp", &bytes[..cut]).with_file("full.slp", &bytes).with_detail(json!({"model": m.summary(), "cut": cut, "skip_frames": skip, "region": region})), json!({"file": rt::hex(&bytes), "cut": cut, "skip": skip}))
			})?;
		}
	}
	ctx.sample_k("slp_file", 3, || json!({"model": m.summary(), "file_len": len, "cuts": if exhaustive { "every offset 0..len-1" } else { "event boundaries +-2 and 2000 random" }, "skip_frames": [false, true]}));
	Ok(())
}

// ---- .slpp (with the sleeping watchdog) ---------------------------------------------------------

struct SlppJob {
	archive: Vec<u8>,
	full: [Game; 2],
	comp: Comp,
	summary: Value,
	regions: Vec<(usize, usize, String)>,
	offsets: Vec<usize>,
	exhaustive: bool,
}

fn slpp_regions(p: &[u8]) -> Vec<(usize, usize, String)> {
	let mut r = Vec::new();
	if let Ok((entries, end)) = walk_tar(p) {
		for e in &entries {
			r.push((e.header_off, e.data_off, format!("tar:{}:header", e.name)));
			if e.name == "frames.arrow" {
				if let Some(ar) = crate::arrowfmt::regions(&p[e.data_off..e.data_off + e.size]) {
					for x in ar {
						r.push((e.data_off + x.start, e.data_off + x.end, x.name.to_string()));
					}
				} else {
					r.push((e.data_off, e.data_off + e.size, "tar:frames.arrow:data".into()));
				}
			} else {
				r.push((e.data_off, e.data_off + e.size, format!("tar:{}:data", e.name)));
			}
			let padded = e.data_off + (e.size + 511) / 512 * 512;
			if padded > e.data_off + e.size {
				r.push((e.data_off + e.size, padded, format!("tar:{}:padding", e.name)));
			}
		}
		r.push((end, p.len(), "tar:trailer".into()));
	}
	r
}

fn region_of(regions: &[(usize, usize, String)], cut: usize) -> &str {
	regions.iter().find(|(a, b, _)| cut >= *a && cut < *b).map(|(_, _, n)| n.as_str()).unwrap_or("tar:?")
}

fn make_job(m: &ModelGame, comp: Comp, exhaustive: bool, seed: u64) -> Result<SlppJob, Fail> {
	let bytes = m.encode();
	let g = rt::slp_read(&bytes, false, true).expect_ok("slippi::read")?;
	let archive = rt::slpp_write(g, comp).expect_ok("peppi::write")?;
	let f0 = rt::slpp_read(&archive, false).expect_ok("peppi::read(full)")?;
	let f1 = rt::slpp_read(&archive, true).expect_ok("peppi::read(full, skip)")?;
	let regions = slpp_regions(&archive);
	let len = archive.len();
	let offsets = if exhaustive {
		(0..len).collect()
	} else {
		let mut v = Vec::new();
		for (a, b, _) in &regions {
			for d in 0..17usize {
				for base in [*a, *b] {
					let c = (base + d).saturating_sub(8);
					if c < len {
						v.push(c);
					}
				}
			}
		}
		let mut r = SplitMix(seed);
		for _ in 0..300 {
			v.push(r.below(len));
		}
		v.sort();
		v.dedup();
		v
	};
	Ok(SlppJob { archive, full: [f0, f1], comp, summary: m.summary(), regions, offsets, exhaustive })
}

fn slpp_cut(job: &SlppJob, cut: usize, skip: bool) -> Result<(), Fail> {
	match rt::slpp_read(&job.archive[..cut], skip) {
		Out::Err(_) => Ok(()),
		Out::Ok(g) => diff_games(&g, &job.full[skip as usize], &CmpOpts::default()).map_err(|e| {
			Fail::new(
				format!("op=truncated slpp partial skip={}", skip),
				format!("archive of {} bytes ({}) cut at {} [{}] was read as a game that differs from the full one: {}", job.archive.len(), job.comp.name(), cut, region_of(&job.regions, cut), e),
			)
		}),
		Out::Panic(p) => Err(Fail::new(format!("op=truncated slpp panic~{}", rt::panic_site(&p)), format!("{} archive cut at {} [{}] (skip_frames={}): {}", job.comp.name(), cut, region_of(&job.regions, cut), skip, p))),
	}
}

struct Worker {
	tid: AtomicU64,
	beat: AtomicU64,
	cur_job: AtomicUsize,
	cur_cut: AtomicUsize,
	cur_skip: AtomicBool,
	done: AtomicBool,
}

/// Runs all (job, offset, skip) cases on WORKERS plain threads with a heartbeat; a thread provably
/// parked in a sleep syscall over an in-memory input is the violation "sleeps waiting for more data".
fn slpp_sweep(ctx: &Ctx, jobs: Vec<SlppJob>) -> Option<(Fail, Value)> {
	let jobs = Arc::new(jobs);
	// units: (job, chunk of 256 offsets)
	let mut units: Vec<(usize, usize, usize)> = Vec::new();
	for (j, job) in jobs.iter().enumerate() {
		let mut a = 0;
		while a < job.offsets.len() {
			let b = (a + 256).min(job.offsets.len());
			units.push((j, a, b));
			a = b;
		}
	}
	let units = Arc::new(units);
	let next = Arc::new(AtomicUsize::new(0));
	let stop = Arc::new(AtomicBool::new(false));
	let found: Arc<Mutex<Option<(Fail, Value)>>> = Arc::new(Mutex::new(None));
	let evals = Arc::new(AtomicU64::new(0));
	let classes: Arc<Mutex<std::collections::BTreeMap<String, u64>>> = Arc::new(Mutex::new(Default::default()));
	let distinct: Arc<Mutex<Vec<u64>>> = Arc::new(Mutex::new(Vec::new()));
	let workers: Vec<Arc<Worker>> = (0..rt::WORKERS)
		.map(|_| Arc::new(Worker { tid: AtomicU64::new(0), beat: AtomicU64::new(0), cur_job: AtomicUsize::new(0), cur_cut: AtomicUsize::new(0), cur_skip: AtomicBool::new(false), done: AtomicBool::new(false) }))
		.collect();
	for w in &workers {
		let (w, jobs, units, next, stop, found, evals, classes, distinct) = (w.clone(), jobs.clone(), units.clone(), next.clone(), stop.clone(), found.clone(), evals.clone(), classes.clone(), distinct.clone());
		std::thread::spawn(move || {
			w.tid.store(watch::thread_self_tid(), Ordering::SeqCst);
			let mut local: std::collections::BTreeMap<String, u64> = Default::default();
			let mut hashes = Vec::new();
			'outer: loop {
				let u = next.fetch_add(1, Ordering::SeqCst);
				if u >= units.len() || stop.load(Ordering::SeqCst) {
					break;
				}
				let (j, a, b) = units[u];
				let job = &jobs[j];
				for &cut in &job.offsets[a..b] {
					for skip in [false, true] {
						w.cur_job.store(j, Ordering::SeqCst);
						w.cur_cut.store(cut, Ordering::SeqCst);
						w.cur_skip.store(skip, Ordering::SeqCst);
						w.beat.fetch_add(1, Ordering::SeqCst);
						evals.fetch_add(1, Ordering::Relaxed);
						*local.entry(region_of(&job.regions, cut).to_string()).or_insert(0) += 1;
						hashes.push(rt::hash_bytes(&[&(j as u64).to_le_bytes()[..], &cut.to_le_bytes(), &[skip as u8]].concat()));
						if let Err(f) = slpp_cut(job, cut, skip) {
							let f = f.with_file("slpp", &job.archive[..cut]).with_file("full.slpp", &job.archive).with_detail(json!({"model": job.summary, "compression": job.comp.name(), "cut": cut, "skip_frames": skip, "region": region_of(&job.regions, cut)}));
							let mut g = found.lock().unwrap();
							if g.is_none() {
								*g = Some((f, json!({"file": rt::hex(&job.archive), "cut": cut, "skip": skip})));
							}
							stop.store(true, Ordering::SeqCst);
							break 'outer;
						}
					}
				}
			}
			let mut c = classes.lock().unwrap();
			for (k, v) in local {
				*c.entry(k).or_insert(0) += v;
			}
			distinct.lock().unwrap().extend(hashes);
			w.done.store(true, Ordering::SeqCst);
		});
	}
	// monitor
	let mut last: Vec<(u64, std::time::Instant)> = workers.iter().map(|w| (w.beat.load(Ordering::SeqCst), std::time::Instant::now())).collect();
	let mut stuck: Option<(Fail, Value)> = None;
	loop {
		std::thread::sleep(std::time::Duration::from_millis(50));
		if workers.iter().all(|w| w.done.load(Ordering::SeqCst)) {
			break;
		}
		for (i, w) in workers.iter().enumerate() {
			if w.done.load(Ordering::SeqCst) {
				continue;
			}
			let b = w.beat.load(Ordering::SeqCst);
			if b != last[i].0 {
				last[i] = (b, std::time::Instant::now());
				continue;
			}
			let stalled = last[i].1.elapsed().as_secs_f64();
			if stalled > 1.5 {
				let tid = w.tid.load(Ordering::SeqCst);
				if tid != 0 && watch::provably_sleeping(tid) && w.beat.load(Ordering::SeqCst) == b {
					let (j, cut, skip) = (w.cur_job.load(Ordering::SeqCst), w.cur_cut.load(Ordering::SeqCst), w.cur_skip.load(Ordering::SeqCst));
					let job = &jobs[j];
					let f = Fail::new(
						format!("op=truncated slpp sleeps skip={}", skip),
						format!("{} archive of {} bytes cut at {} [{}]: the reading thread is parked in a sleep syscall, consuming no CPU, on an in-memory input (sleeps waiting for more data)", job.comp.name(), job.archive.len(), cut, region_of(&job.regions, cut)),
					)
					.with_file("slpp", &job.archive[..cut])
					.with_file("full.slpp", &job.archive)
					.with_detail(json!({"model": job.summary, "compression": job.comp.name(), "cut": cut, "skip_frames": skip}));
					stuck = Some((f, json!({"file": rt::hex(&job.archive), "cut": cut, "skip": skip})));
					stop.store(true, Ordering::SeqCst);
					break;
				} else if stalled > 300.0 {
					eprintln!("C07: a reader thread made no progress for 300 s while consuming CPU: inconclusive");
					std::process::exit(2);
				}
			}
		}
		if stuck.is_some() {
			break;
		}
	}
	ctx.evals(evals.load(Ordering::Relaxed));
	for (k, v) in classes.lock().unwrap().iter() {
		ctx.class_n(k, *v);
	}
	for h in distinct.lock().unwrap().iter() {
		ctx.nontrivial(*h);
	}
	if let Some(s) = stuck {
		// the parked thread can never be joined: report and leave from here
		if !ctx.is_known(&s.0) {
			ctx.report("slpp_cut", &s.1, &s.0);
			ctx.write_evidence(1);
			std::process::exit(1);
		}
		return None;
	}
	let r = found.lock().unwrap().take();
	r
}

/// single watched read (replay of a saved case)
fn slpp_cut_watched(archive: &[u8], cut: usize, skip: bool) -> Result<(), Fail> {
	let f0 = rt::slpp_read(archive, false).expect_ok("peppi::read(full)")?;
	let f1 = rt::slpp_read(archive, true).expect_ok("peppi::read(full, skip)")?;
	let job = Arc::new(SlppJob { archive: archive.to_vec(), full: [f0, f1], comp: Comp::None, summary: json!(null), regions: slpp_regions(archive), offsets: vec![cut], exhaustive: false });
	let tid = Arc::new(AtomicU64::new(0));
	let res: Arc<Mutex<Option<Result<(), Fail>>>> = Arc::new(Mutex::new(None));
	{
		let (job, tid, res) = (job.clone(), tid.clone(), res.clone());
		std::thread::spawn(move || {
			tid.store(watch::thread_self_tid(), Ordering::SeqCst);
			let r = slpp_cut(&job, cut, skip);
			*res.lock().unwrap() = Some(r);
		});
	}
	let start = std::time::Instant::now();
	loop {
		std::thread::sleep(std::time::Duration::from_millis(20));
		if let Some(r) = res.lock().unwrap().take() {
			return r;
		}
		if start.elapsed().as_secs_f64() > 1.5 {
			let t = tid.load(Ordering::SeqCst);
			if t != 0 && watch::provably_sleeping(t) {
				return Err(Fail::new(format!("op=truncated slpp sleeps skip={}", skip), format!("archive cut at {}: reader thread parked in a sleep syscall (sleeps waiting for more data)", cut)));
			}
			if start.elapsed().as_secs() > 300 {
				eprintln!("inconclusive: no progress for 300 s");
				std::process::exit(2);
			}
		}
	}
}

fn exhaustive_slpp_models() -> Vec<ModelGame> {
	use crate::gen::{simple_model, Pattern};
	let mut a = simple_model((3, 16, 0), &[(0, true), (1, false)], 4, 71, Pattern::Random, 2, true);
	a.gecko = Some(crate::model::Gecko { bytes: vec![0x5A; 512], actual: 300 });
	a.frames[2].chars[1] = None;
	let b = simple_model((2, 0, 1), &[(2, false)], 3, 72, Pattern::Random, 1, true);
	let c = simple_model((3, 3, 0), &[(0, false), (3, false)], 2, 73, Pattern::Special, 1, false);
	vec![a, b, c]
}

/// fuzz entry: DNA -> finished model + cut offset; every such prefix must be rejected
pub fn fuzz_dna(dna: &[u8]) -> Result<(), Fail> {
	let mut d = Dna::new(dna);
	let cutsel = d.u32();
	let skip = d.u8() & 1 != 0;
	let mut cfg = GenCfg::small();
	cfg.finished = true;
	let mut m = crate::gen::gen_model(&mut d, &cfg);
	if m.end == EndSpec::None {
		m.end = EndSpec::One(vec![0; spec::end_size(m.v())]);
	}
	let bytes = m.encode();
	let cut = ((cutsel as u64 * bytes.len() as u64) >> 32) as usize;
	slp_cut(&bytes, cut, skip).map_err(|f| f.with_file("slp", &bytes[..cut]))
}

pub fn case(_ctx: &Ctx, kind: &str, params: &Value, _counting: bool) -> Result<(), Fail> {
	let file = rt::unhex(params["file"].as_str().unwrap_or(""));
	let cut = (params["cut"].as_u64().unwrap_or(0) as usize).min(file.len());
	let skip = params["skip"].as_bool().unwrap_or(false);
	match kind {
		"slp_cut" => slp_cut(&file, cut, skip),
		_ => slpp_cut_watched(&file, cut, skip),
	}
}

/// regression inputs: a *full* file; every prefix is swept (slp) / boundary+random (slpp)
pub fn file_case(ctx: &Ctx, path: &str, bytes: &[u8]) -> Result<(), Fail> {
	if path.ends_with(".slpp") {
		for cut in 0..bytes.len() {
			for skip in [false, true] {
				// only small archives are kept as regressions
				let _ = ctx;
				slpp_cut_watched_fast(bytes, cut, skip)?;
			}
		}
		Ok(())
	} else {
		for cut in 0..bytes.len() {
			for skip in [false, true] {
				slp_cut(bytes, cut, skip)?;
			}
		}
		Ok(())
	}
}

fn slpp_cut_watched_fast(archive: &[u8], cut: usize, skip: bool) -> Result<(), Fail> {
	// in-thread (no sleeping detection): used only for regression archives after D5's repair;
	// a re-introduced sleep is caught by the swept tiers, which are watched
	match rt::slpp_read(&archive[..cut], skip) {
		Out::Panic(p) => Err(Fail::new(format!("op=truncated slpp panic~{}", rt::panic_site(&p)), format!("cut {}: {}", cut, p))),
		_ => Ok(()),
	}
}

pub fn run(ctx: &Ctx) -> usize {
	ctx.set_rule("fault enumeration over cut points: EVERY proper prefix (offsets 0..len-1) of small generated finished .slp files of every regime (with/without gecko, metadata, doubled end) x {skip-frames off, on}; larger files at every event boundary +-2 plus 2000 random offsets; EVERY proper prefix of the writer's .slpp output for three games x {none, LZ4, ZSTD} x {skip-frames off, on}, and for many more archives every tar/Arrow region edge +-8 plus 300 random offsets; oracle: .slp prefix -> Err (Ok = game built from partial data, panic = violation); .slpp prefix -> Err, or Ok with a game bit-identical to the read of the full archive under the same options; reads run on watched threads: a thread parked in nanosleep/clock_nanosleep with zero CPU over three samples on an in-memory input is the violation 'sleeps waiting for more data'; non-trivial = cut after the 15-byte header (.slp) / any cut (.slpp); distinct by (file, cut, skip)");
	ctx.assume("a stalled-but-running reader would end as inconclusive (exit 2), never as a violation");
	let mut violations = 0;
	let small = GenCfg::small();
	let nfiles = ctx.n(96, 1200);
	let models: Vec<ModelGame> = (0..nfiles).map(|i| finished_model(ctx.seed ^ (0xC07 + i as u64 * 7919), &small)).collect();
	if rt::par_first(ctx, "slp_cut", models.len(), |i| slp_file(ctx, &models[i], true, 0)).is_some() {
		violations += 1;
	}
	let big = if ctx.quick() { GenCfg::quick() } else { GenCfg::thorough() };
	let nbig = ctx.n(48, 1000);
	let bigm: Vec<ModelGame> = (0..nbig).map(|i| finished_model(ctx.seed ^ (0xB16 + i as u64 * 104729), &big)).collect();
	if rt::par_first(ctx, "slp_cut", bigm.len(), |i| slp_file(ctx, &bigm[i], false, ctx.seed ^ i as u64)).is_some() {
		violations += 1;
	}
	if !ctx.quick() && violations == 0 {
		let secs = std::env::var("PV_FUZZ_SECS").ok().and_then(|s| s.parse().ok()).unwrap_or(200);
		if rt::run_fuzz(ctx, "truncate_prefix", secs, 8, 2048, &rt::random_seeds(ctx.seed, 12, 1024)).is_some() {
			violations += 1;
		}
	}
	if violations > 0 {
		return violations;
	}
	// .slpp
	let mut jobs = Vec::new();
	for m in exhaustive_slpp_models() {
		for comp in Comp::ALL {
			match make_job(&m, comp, true, 0) {
				Ok(j) => jobs.push(j),
				Err(f) => {
					if !ctx.is_known(&f) {
						ctx.report("slpp_base", &json!({}), &f.with_file("slp", &m.encode()));
						return 1;
					}
				}
			}
		}
	}
	let nsl = ctx.n(60, 2000);
	let mut cfg = small.clone();
	cfg.max_frames = ctx.n(8, 60);
	for i in 0..nsl {
		let mut m = finished_model(ctx.seed ^ (0x51BB + i as u64 * 15485863), &cfg);
		if i % 4 == 3 {
			// real recorder shapes (real start block, metadata, multi-block gecko list)
			if let Some((_, fm)) = fixture_model(&seeded_dna(ctx.seed ^ (0xF1C + i as u64 * 7919), 256)) {
				m = fm;
				if m.end == EndSpec::None {
					m.end = EndSpec::One(vec![2; spec::end_size(m.v())]);
				}
			}
		}
		let comp = Comp::ALL[i % 3];
		match make_job(&m, comp, false, ctx.seed ^ i as u64) {
			Ok(j) => jobs.push(j),
			Err(f) => {
				if !ctx.is_known(&f) {
					ctx.report("slpp_base", &json!({}), &f.with_file("slp", &m.encode()));
					return 1;
				}
			}
		}
	}
	for j in jobs.iter().take(3) {
		ctx.sample(json!({"kind": "slpp_archive", "model": j.summary, "compression": j.comp.name(), "archive_len": j.archive.len(), "cuts": if j.exhaustive { "every offset".to_string() } else { format!("{} offsets", j.offsets.len()) }, "regions": j.regions.iter().map(|(a, b, n)| format!("{}..{} {}", a, b, n)).collect::<Vec<_>>()}));
	}
	ctx.put("slpp_archives", json!(jobs.len()));
	ctx.put("slpp_archives_exhaustive", json!(jobs.iter().filter(|j| j.exhaustive).count()));
	if let Some((f, params)) = slpp_sweep(ctx, jobs) {
		if !ctx.is_known(&f) {
			ctx.report("slpp_cut", &params, &f);
			violations += 1;
		}
	}
	violations
}
