//! C12 — incremental parsing equals one-shot parsing for any read fragmentation.
//! (C13's in-progress clause — row view of every completed frame — is checked here too.)

use byteorder_lite::read_u8;
use serde_json::{json, Value};

use super::*;
use crate::access::{view_immutable, view_mutable, CharView, Cols, FrameView};
use crate::readers::{gen_schedule, SchedReader, Schedule};
use crate::rt::{self, run_dna, run_enum, Out};
use peppi::game::Game as GameTrait;
use peppi::io::slippi::de;

mod byteorder_lite {
	use std::io::Read;
	pub fn read_u8<R: Read>(r: &mut R) -> std::io::Result<u8> {
		let mut b = [0u8; 1];
		r.read_exact(&mut b)?;
		Ok(b[0])
	}
}

fn col_row_eq(what: &str, a: &Cols, ra: usize, b: &Cols, rb: usize) -> Result<(), String> {
	for ((pa, ca), (_, cb)) in a.iter().zip(b) {
		match (ca, cb) {
			(None, None) => {}
			(Some(x), Some(y)) => {
				let (vx, vy) = (x.get(ra), y.get(rb));
				if vx.is_none() || vx != vy {
					return Err(format!("{}.{} row {}: {:?} vs {:?}", what, pa, ra, vx, vy));
				}
			}
			_ => return Err(format!("{}.{}: column presence differs", what, pa)),
		}
	}
	Ok(())
}

fn valid_at(c: &CharView, i: usize) -> Option<bool> {
	match &c.valid {
		None => Some(true),
		Some(v) => v.get(i).copied(),
	}
}

fn char_row_eq(what: &str, a: &CharView, b: &CharView, i: usize, present_only: bool) -> Result<(), String> {
	let (va, vb) = (valid_at(a, i), valid_at(b, i));
	if present_only {
		// open last frame: only characters already present in it are comparable
		let have = a.pre.iter().all(|(_, c)| c.as_ref().map_or(true, |c| c.len() > i)) && a.post.iter().all(|(_, c)| c.as_ref().map_or(true, |c| c.len() > i));
		if !have || va != Some(true) {
			return Ok(());
		}
	}
	if va != vb {
		return Err(format!("{} row {}: presence {:?} vs {:?}", what, i, va, vb));
	}
	if va == Some(true) {
		col_row_eq(&format!("{}.pre", what), &a.pre, i, &b.pre, i)?;
		col_row_eq(&format!("{}.post", what), &a.post, i, &b.post, i)?;
	}
	Ok(())
}

/// row `i` of the in-progress view equals row `i` of the final game
fn row_eq(a: &FrameView, b: &FrameView, i: usize, present_only: bool) -> Result<(), String> {
	if a.ids.get(i) != b.ids.get(i) {
		return Err(format!("id row {}: {:?} vs {:?}", i, a.ids.get(i), b.ids.get(i)));
	}
	for (pa, pb) in a.ports.iter().zip(&b.ports) {
		let w = format!("P{}", pa.port + 1);
		char_row_eq(&format!("{}.leader", w), &pa.leader, &pb.leader, i, present_only)?;
		if let (Some(x), Some(y)) = (&pa.follower, &pb.follower) {
			char_row_eq(&format!("{}.follower", w), x, y, i, present_only)?;
		}
	}
	if let (Some(x), Some(y)) = (&a.start, &b.start) {
		col_row_eq("start", x, i, y, i)?;
	}
	if present_only {
		return Ok(());
	}
	if let (Some(x), Some(y)) = (&a.end, &b.end) {
		col_row_eq("end", x, i, y, i)?;
	}
	if let (Some(oa), Some(ob)) = (&a.item_offsets, &b.item_offsets) {
		if oa.get(i) != ob.get(i) || oa.get(i + 1) != ob.get(i + 1) {
			return Err(format!("item offsets row {}: {:?}..{:?} vs {:?}..{:?}", i, oa.get(i), oa.get(i + 1), ob.get(i), ob.get(i + 1)));
		}
		if let (Some(x), Some(y)) = (&a.item, &b.item) {
			for k in oa[i]..oa[i + 1] {
				col_row_eq("item", x, k as usize, y, k as usize)?;
			}
		}
	}
	Ok(())
}

pub struct Case {
	pub m: ModelGame,
	pub raw: crate::model::RawFile,
	pub sched: Schedule,
}

fn gen_case(dna: &[u8], cfg: &crate::gen::GenCfg) -> Case {
	let mut d = Dna::new(dna);
	let sched_dna: Vec<u8> = (0..8).map(|_| d.u8()).collect();
	let unknown = d.u8();
	let m = super::gen_model_mixed(&mut d, cfg, true);
	let mut raw = m.raw();
	if unknown >= 200 {
		// a few unknown events between known ones (they must not disturb frame completion)
		super::c08::insert_unknown(&mut raw, &mut d, 4);
	}
	let len = raw.serialize().len();
	Case { m, raw, sched: gen_schedule(&mut Dna::new(&sched_dna), len) }
}

pub fn check(ctx: &Ctx, c: &Case, label: &str, counting: bool) -> Result<(), Fail> {
	let bytes = c.raw.serialize();
	super::sibling_history(&c.m, &bytes);
	let m = &c.m;
	if counting {
		ctx.eval();
		let _ = classify(ctx, m);
		ctx.class(label);
		ctx.class(&format!("schedule:{}", c.sched.describe().split('(').next().unwrap()));
		if m.frames.len() >= 3 && !matches!(c.sched, Schedule::Full | Schedule::Fixed(4096)) {
			let mut h = bytes.clone();
			h.extend_from_slice(c.sched.describe().as_bytes());
			ctx.nontrivial(rt::hash_bytes(&h));
		}
		ctx.sample_k(label, 4, || json!({"model": m.summary(), "schedule": c.sched.describe(), "unknown_events": c.raw.events.len() - m.events().len()}));
	}
	let detail = json!({"model": m.summary(), "schedule": c.sched.describe()});
	let fail = |sig: &str, msg: String| Fail::new(format!("op=incremental {}", sig), format!("v{}.{}: {}", m.version.0, m.version.1, msg)).with_file("slp", &bytes).with_detail(detail.clone());
	let one = rt::slp_read_default(&bytes).expect_ok("slippi::read").map_err(|f| f.with_file("slp", &bytes))?;
	let fin = view_immutable(&one.frames);
	// the reference of the differential must itself be a finished, rectangular game: every column and
	// bitmap has one entry per frame row (otherwise "equals the one-shot game" is not meaningful)
	{
		let n = fin.ids.len();
		let ragged = |cols: &crate::access::Cols| cols.iter().find(|(_, c)| c.as_ref().map_or(false, |c| c.len() != n)).map(|(p, c)| format!("{} has {} entries", p, c.as_ref().unwrap().len()));
		for p in &fin.ports {
			for (w, ch) in [("leader", Some(&p.leader)), ("follower", p.follower.as_ref())] {
				if let Some(ch) = ch {
					let bad = ragged(&ch.pre).or_else(|| ragged(&ch.post)).or_else(|| ch.valid.as_ref().filter(|v| v.len() != n).map(|v| format!("validity has {} entries", v.len())));
					if let Some(b) = bad {
						return Err(fail("oneshot_ragged", format!("the one-shot game is not rectangular: P{} {}: {} for {} frame rows", p.port + 1, w, b, n)));
					}
				}
			}
		}
	}
	let v = m.v();
	let has_fend = spec::gte(v, (3, 0));
	let version = one.start.slippi.version;

	let mut r = SchedReader::new(&bytes, c.sched.clone());
	let res: Out<Result<(), Fail>> = rt::guard(|| -> Result<Result<(), Fail>, String> {
		let size = de::parse_header(&mut r, None).map_err(|e| e.to_string())? as usize;
		let mut state = de::parse_start(&mut r, None).map_err(|e| e.to_string())?;
		if state.bytes_read() != r.pos - 15 {
			return Ok(Err(fail("bytes_read", format!("after parse_start: bytes_read {} but {} raw bytes consumed", state.bytes_read(), r.pos - 15))));
		}
		let mut last_len = 0usize;
		let mut events = 0usize;
		let small = m.frames.len() <= 12;
		// very large games: the per-event view comparisons are thinned out (they copy the columns);
		// bytes_read / frame-count checks stay per event and the final comparison is complete
		let total_items: usize = m.frames.iter().map(|f| f.items.len()).sum();
		let heavy = m.frames.len() > 1500 || total_items > 5000;
		let estride = (c.raw.events.len() / 48).max(1);
		let mut checked = 0usize; // heavy mode: rows already compared
		let mut closed = 0usize; // frames known to be complete
		let drive_to_raw_len = bytes.len() % 2 == 1 && c.raw.tail.is_empty();
		loop {
			if state.bytes_read() >= size {
				break;
			}
			let code = de::parse_event(&mut r, &mut state, None).map_err(|e| e.to_string())?;
			events += 1;
			if state.bytes_read() != r.pos - 15 {
				return Ok(Err(fail("bytes_read", format!("after event #{} ({:#x}): bytes_read {} but {} raw bytes consumed", events, code, state.bytes_read(), r.pos - 15))));
			}
			let len = state.frames().len();
			if len < last_len {
				return Ok(Err(fail("len_decreased", format!("frame count went from {} to {}", last_len, len))));
			}
			if GameTrait::len(&state) != len {
				return Ok(Err(fail("len_trait", format!("Game::len {} != frames().len() {}", GameTrait::len(&state), len))));
			}
			// >= 3.0: a frame is complete when its Frame End arrived; < 3.0: when a later frame opened
			let newly_closed = if has_fend {
				if code == spec::EV_FRAME_END {
					len
				} else {
					closed
				}
			} else {
				len.saturating_sub(1)
			};
			if heavy {
				if events % estride == 0 && newly_closed > checked {
					let cur = view_mutable(state.frames());
					for i in checked..newly_closed.min(fin.ids.len()) {
						if let Err(e) = row_eq(&cur, &fin, i, false) {
							return Ok(Err(fail("closed_row", format!("after event #{} ({:#x}): completed frame {} differs from the final game: {}", events, code, i, e))));
						}
					}
					let i = newly_closed.min(fin.ids.len()) - 1;
					if let Err(e) = super::c13::row_matches(&state.frame(i), &cur, i, version) {
						return Ok(Err(Fail::new("op=rowview inprogress", format!("ParseState::frame({}) vs its own columns: {}", i, e)).with_file("slp", &bytes)));
					}
					checked = newly_closed;
				}
				closed = closed.max(newly_closed);
				last_len = len;
				if code == spec::EV_GAME_END && !drive_to_raw_len {
					break;
				}
				continue;
			}
			let check_all = small || events % 8 == 0;
			if newly_closed > closed || check_all {
				let cur = view_mutable(state.frames());
				let from = if check_all { 0 } else { closed };
				for i in from..newly_closed.min(fin.ids.len()) {
					if let Err(e) = row_eq(&cur, &fin, i, false) {
						return Ok(Err(fail("closed_row", format!("after event #{} ({:#x}): completed frame {} differs from the final game: {}", events, code, i, e))));
					}
				}
				// C13 (in-progress): the row view of each newly completed frame equals the columns
				for i in closed..newly_closed.min(fin.ids.len()) {
					let row = state.frame(i);
					if let Err(e) = super::c13::row_matches(&row, &cur, i, version) {
						return Ok(Err(Fail::new("op=rowview inprogress", format!("ParseState::frame({}) vs its own columns: {}", i, e)).with_file("slp", &bytes)));
					}
				}
			}
			closed = closed.max(newly_closed);
			last_len = len;
			// C13 (in-progress): the most recently completed frame keeps matching its columns while the
			// next frame is being parsed
			if closed > 0 && closed <= fin.ids.len() && newly_closed == closed {
				let cur = view_mutable(state.frames());
				let row = state.frame(closed - 1);
				if let Err(e) = super::c13::row_matches(&row, &cur, closed - 1, version) {
					return Ok(Err(Fail::new("op=rowview inprogress later", format!("ParseState::frame({}) after event #{} ({:#x}) of the next frame: {}", closed - 1, events, code, e)).with_file("slp", &bytes)));
				}
			}
			// two equally legitimate drivers: stop at the first Game End (README), or keep calling
			// parse_event until the declared raw length is consumed (a duplicated Game End is then just
			// another event)
			if code == spec::EV_GAME_END && !drive_to_raw_len {
				break;
			}
		}
		// the rest of the raw element (duplicate Game End), then metadata — driver logic as in README
		if state.bytes_read() < size {
			let mut skip = vec![0u8; size - state.bytes_read()];
			std::io::Read::read_exact(&mut r, &mut skip).map_err(|e| e.to_string())?;
		}
		let next = read_u8(&mut r).map_err(|e| e.to_string())?;
		if next == 0x55 {
			de::parse_metadata(&mut r, &mut state, None).map_err(|e| e.to_string())?;
		}
		// final comparison
		if format!("{:?}", state.start()) != format!("{:?}", one.start) || state.start().bytes.0 != one.start.bytes.0 {
			return Ok(Err(fail("start", "start differs from one-shot".into())));
		}
		if format!("{:?}", state.end()) != format!("{:?}", one.end) {
			return Ok(Err(fail("end", format!("end differs from one-shot: {:?} vs {:?}", state.end(), one.end))));
		}
		if crate::cmp::meta_string(state.metadata()) != crate::cmp::meta_string(&one.metadata) {
			return Ok(Err(fail("metadata", "metadata differs from one-shot".into())));
		}
		match (state.gecko_codes(), &one.gecko_codes) {
			(None, None) => {}
			(Some(a), Some(b)) if a.bytes == b.bytes && a.actual_size == b.actual_size => {}
			_ => return Ok(Err(fail("gecko", "gecko codes differ from one-shot".into()))),
		}
		if GameTrait::len(&state) != fin.ids.len() {
			return Ok(Err(fail("len", format!("{} frames incrementally, {} one-shot", GameTrait::len(&state), fin.ids.len()))));
		}
		let cur = view_mutable(state.frames());
		let n = fin.ids.len();
		let all_closed = if has_fend { closed } else { n.saturating_sub(1) };
		for i in 0..all_closed.min(n) {
			if let Err(e) = row_eq(&cur, &fin, i, false) {
				return Ok(Err(fail("final_row", format!("final: completed frame {} differs: {}", i, e))));
			}
		}
		if !has_fend && n > 0 {
			// the last frame of a < 3.0 stream stays open in the incremental API: compare what is present
			if let Err(e) = row_eq(&cur, &fin, n - 1, true) {
				return Ok(Err(fail("final_open_row", format!("final: open last frame differs: {}", e))));
			}
		}
		Ok(Ok(()))
	});
	match res {
		Out::Ok(r) => r,
		Out::Err(e) => Err(fail("driver_err", format!("incremental API returned an error on a file the one-shot reader accepts: {}", e))),
		Out::Panic(p) => Err(fail(&format!("panic~{}", rt::panic_site(&p)), format!("incremental API panicked: {}", p))),
	}
}

fn forced(i: usize) -> Case {
	let vers = [(0, 1, 0), (1, 4, 0), (2, 2, 0), (2, 9, 0), (3, 0, 0), (3, 16, 0)];
	let ver = vers[i % vers.len()];
	let k = i / vers.len();
	let m = crate::gen::simple_model(ver, &[(0, false), (2, k % 2 == 0)], 5, i as u64 + 3, crate::gen::Pattern::Distinct, (k % 3) as u8, k % 2 == 1);
	let len = m.encode().len();
	let scheds = [Schedule::Fixed(1), Schedule::Fixed(3), Schedule::Random(k as u64 + 1, 5), Schedule::Split(len / 2), Schedule::Full];
	let raw = m.raw();
	Case { m, raw, sched: scheds[k % scheds.len()].clone() }
}

fn large(i: usize) -> Case {
	let m = large_model(i);
	let raw = m.raw();
	let sched = [Schedule::Fixed(4096), Schedule::Random(i as u64 + 7, 700), Schedule::Full, Schedule::Fixed(64), Schedule::Split(100_000)][i % 5].clone();
	Case { m, raw, sched }
}

pub fn case(ctx: &Ctx, kind: &str, params: &Value, counting: bool) -> Result<(), Fail> {
	match kind {
		"forced" => check(ctx, &forced(params["i"].as_u64().unwrap_or(0) as usize), "forced", counting),
		"large" => check(ctx, &large(params["i"].as_u64().unwrap_or(0) as usize), "large_game", counting),
		_ => check(ctx, &gen_case(&dna_param(params), &cfg(ctx)), "dna", counting),
	}
}

fn cfg(ctx: &Ctx) -> crate::gen::GenCfg {
	let mut c = cfg_for(ctx);
	c.max_frames = ctx.n(40, 120);
	c
}

pub fn run(ctx: &Ctx) -> usize {
	ctx.set_rule("generated replays (incl. gecko blocks, rollbacks, absences, occasionally unknown events) x read schedules (full, fixed 1/2/3/7/64/4096, random short reads, two-piece splits) driven through the README's incremental loop (header, start, one event per call, rest of raw, metadata); oracle after every call: bytes_read() == raw bytes consumed from the stream, frame count non-decreasing, every completed frame (>= 3.0: Frame End seen; < 3.0: a later frame opened) bit-equal to the same row of the one-shot game (all earlier rows re-checked every 8 events, every event for small games) and its row view equal to its columns; at the end start/end/metadata/gecko/len equal the one-shot game; non-trivial = >=3 frames and a fragmenting schedule; distinct by xxh3(file, schedule)");
	ctx.assume("the last frame of a < 3.0 stream has no public close in the incremental API; it is compared only for characters present in it");
	let mut violations = 0;
	if run_enum(ctx, "forced", 6 * 15, |i| json!({ "i": i }), |i| check(ctx, &forced(i), "forced", true)).is_some() {
		violations += 1;
	}
	let cfg = cfg(ctx);
	if run_dna(ctx, "dna", ctx.n(20_000, 600_000), dna_max(ctx), |dna, counting| check(ctx, &gen_case(dna, &cfg), "dna", counting)).is_some() {
		violations += 1;
	}
	if violations == 0 && run_enum(ctx, "large", LARGE_CASES, |i| json!({ "i": i }), |i| check(ctx, &large(i), "large_game", true)).is_some() {
		violations += 1;
	}
	if !ctx.quick() && violations == 0 {
		let secs = std::env::var("PV_FUZZ_SECS").ok().and_then(|s| s.parse().ok()).unwrap_or(200);
		if rt::run_fuzz(ctx, "incremental_diff", secs, 8, 4096, &rt::random_seeds(ctx.seed, 12, 1024)).is_some() {
			violations += 1;
		}
	}
	violations
}
