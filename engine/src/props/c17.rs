//! C17 — serialising any accepted game gives a self-consistent file and a fixed point.

use serde_json::{json, Value};

use super::*;
use crate::cmp::{diff_games, CmpOpts};
use crate::model::{walk, EndSpec, RawFile, Where};
use crate::rt::{self, run_dna, run_enum};

struct Case {
	m: ModelGame,
	raw: RawFile,
	irregular: Vec<&'static str>,
}

/// permutes the pre/item/post events of each frame keeping each character's pre before its post
/// (and, before 2.2, a pre first); start stays first and end last
fn permute_frames(raw: &mut RawFile, d: &mut Dna, old: bool) -> bool {
	let mut changed = false;
	let mut i = 0;
	while i < raw.events.len() {
		if let Where::Frame(fi) = raw.events[i].at {
			let mut j = i;
			while j < raw.events.len() && raw.events[j].at == Where::Frame(fi) {
				j += 1;
			}
			// movable span: events of this frame except FrameStart / FrameEnd
			let lo = i + (raw.events[i].code == spec::EV_FRAME_START) as usize;
			let hi = j - (raw.events[j - 1].code == spec::EV_FRAME_END && j - 1 >= lo) as usize;
			if hi > lo + 1 && d.u8() >= 100 {
				let mut span: Vec<_> = raw.events[lo..hi].to_vec();
				// random permutation by repeated constrained selection
				let mut out = Vec::with_capacity(span.len());
				while !span.is_empty() {
					let ok: Vec<usize> = (0..span.len())
						.filter(|&k| {
							let e = &span[k];
							if e.code == spec::EV_POST {
								// its pre must already be out
								!span.iter().any(|p| p.code == spec::EV_PRE && p.payload[4..6] == e.payload[4..6])
							} else if old && out.is_empty() {
								e.code == spec::EV_PRE
							} else {
								true
							}
						})
						.collect();
					let pick = ok[d.below(ok.len())];
					out.push(span.remove(pick));
				}
				if out != raw.events[lo..hi] {
					changed = true;
				}
				raw.events.splice(lo..hi, out);
			}
			i = j;
		} else {
			i += 1;
		}
	}
	changed
}

fn gen_case(dna: &[u8], cfg: &crate::gen::GenCfg) -> Case {
	let mut d = Dna::new(dna);
	let sel = d.u8();
	let udna: Vec<u8> = (0..64).map(|_| d.u8()).collect();
	let pdna: Vec<u8> = (0..96).map(|_| d.u8()).collect();
	let junk_len = d.below(41);
	let m = super::gen_model_mixed(&mut d, cfg, true);
	let mut raw = m.raw();
	let mut irr = Vec::new();
	let old = !spec::gte(m.v(), (2, 2));
	if sel & 1 != 0 && permute_frames(&mut raw, &mut Dna::new(&pdna), old) {
		irr.push("permuted");
	}
	if sel & 2 != 0 {
		super::c08::insert_unknown(&mut raw, &mut Dna::new(&udna), 8);
		irr.push("unknown_events");
	}
	if sel & 4 != 0 && junk_len > 0 && matches!(m.end, EndSpec::One(_)) {
		// junk after Game End inside the raw element (never starting like a duplicated Game End of the right size by construction)
		let mut junk: Vec<u8> = (0..junk_len).map(|k| (k as u8).wrapping_mul(29) ^ 0xC3).collect();
		if junk.len() == 1 + m.end_len() && junk[0] == spec::EV_GAME_END {
			junk[0] = 0;
		}
		raw.tail = junk;
		irr.push("junk_after_end");
	}
	if m.end == EndSpec::None {
		irr.push("end_absent");
	}
	if m.metadata.is_none() {
		irr.push("metadata_absent");
	}
	Case { m, raw, irregular: irr }
}

pub fn check_bytes(x: &[u8]) -> Result<(), Fail> {
	let fail = |sig: &str, msg: String| Fail::new(format!("op=fixpoint {}", sig), msg).with_file("slp", x);
	let g1 = match rt::slp_read_default(x) {
		rt::Out::Ok(g) => g,
		rt::Out::Err(e) => return Err(fail("rejected", format!("tolerated irregularity rejected: {}", e))),
		rt::Out::Panic(p) => return Err(fail(&format!("panic~{}", rt::panic_site(&p)), p)),
	};
	let w = rt::slp_write(&g1).expect_ok("slippi::write").map_err(|f| f.with_file("slp", x))?;
	// declared raw length == measured raw element (located independently)
	let declared = u32::from_be_bytes([w[11], w[12], w[13], w[14]]) as usize;
	match walk(&w) {
		Ok(raw) => {
			let measured = raw.raw_body().len();
			if measured != declared || !raw.tail.is_empty() {
				return Err(fail("rawlen", format!("declared raw length {} but the engine's event walk measures {} (tail {})", declared, measured, raw.tail.len())).with_file("written.slp", &w));
			}
		}
		Err(e) => return Err(fail("rawlen", format!("written file is not self-consistent: {} (declared raw length {}, file length {})", e, declared, w.len())).with_file("written.slp", &w)),
	}
	let g2 = match rt::slp_read_default(&w) {
		rt::Out::Ok(g) => g,
		rt::Out::Err(e) => return Err(fail("reread", format!("written file cannot be read: {}", e)).with_file("written.slp", &w)),
		rt::Out::Panic(p) => return Err(fail("reread panic", p).with_file("written.slp", &w)),
	};
	diff_games(&g2, &g1, &CmpOpts { frames: true, hash: true, quirks: true }).map_err(|e| fail("reread_differs", format!("second read differs from the first: {}", e)).with_file("written.slp", &w))?;
	let w2 = rt::slp_write(&g2).expect_ok("slippi::write(2)").map_err(|f| f.with_file("slp", x))?;
	if w2 != w {
		let i = (0..w.len().min(w2.len())).find(|&i| w[i] != w2[i]).unwrap_or(w.len().min(w2.len()));
		return Err(fail("not_fixed_point", format!("write(read(w)) differs from w at offset {}", i)).with_file("written.slp", &w));
	}
	Ok(())
}

fn check(ctx: &Ctx, c: &Case, label: &str, counting: bool) -> Result<(), Fail> {
	let x = c.raw.serialize();
	if counting {
		ctx.eval();
		let _ = classify(ctx, &c.m);
		ctx.class(label);
		for i in &c.irregular {
			ctx.class(&format!("irregular:{}", i));
		}
		if c.irregular.is_empty() {
			ctx.class("irregular:none");
		}
		if !c.irregular.is_empty() && !c.m.frames.is_empty() {
			ctx.nontrivial(rt::hash_bytes(&x));
		}
		ctx.sample_k(label, 4, || json!({"model": c.m.summary(), "irregularities": c.irregular}));
	}
	check_bytes(&x).map_err(|f| f.with_detail(json!({"model": c.m.summary(), "irregularities": c.irregular})))?;
	// the first read also carries the history's data (model-based; permutation order of items is the file's order)
	Ok(())
}

pub fn case(ctx: &Ctx, kind: &str, params: &Value, counting: bool) -> Result<(), Fail> {
	let _ = kind;
	check(ctx, &gen_case(&dna_param(params), &cfg_for(ctx)), "dna", counting)
}

pub fn file_case(bytes: &[u8]) -> Result<(), Fail> {
	check_bytes(bytes)
}

pub fn run(ctx: &Ctx) -> usize {
	ctx.set_rule("generated replays with any combination of tolerated irregularities: unknown events anywhere after Game Start, 1..40 junk bytes after a single Game End inside the raw element, per-frame permutations of pre/item/post events keeping each character's pre before its post (and a pre first before 2.2), Game End absent, metadata absent; oracle: w = write(read(x)); the declared raw length of w == the length of its raw element measured by the engine's own event walk (which must end exactly there and be followed by metadata or the closing brace); read(w) succeeds and equals read(x) in start, end, metadata, gecko codes, quirks and every frame column (bits + validity); write(read(w)) == w; non-trivial = >=1 irregularity and >=1 frame; distinct by xxh3 of x");
	ctx.assume("equality of w with the original x is not required (unknown events and junk are dropped, permuted events are re-ordered canonically)");
	let mut violations = 0;
	let cfg = cfg_for(ctx);
	if run_dna(ctx, "dna", ctx.n(50_000, 2_500_000), dna_max(ctx), |dna, counting| check(ctx, &gen_case(dna, &cfg), "dna", counting)).is_some() {
		violations += 1;
	}
	if !ctx.quick() && violations == 0 {
		let secs = std::env::var("PV_FUZZ_SECS").ok().and_then(|s| s.parse().ok()).unwrap_or(200);
		if rt::run_fuzz(ctx, "irregular_fixpoint", secs, 8, 4096, &rt::random_seeds(ctx.seed, 12, 1024)).is_some() {
			violations += 1;
		}
	}
	let _ = run_enum::<fn(usize) -> Result<(), Fail>, fn(usize) -> Value>;
	violations
}
