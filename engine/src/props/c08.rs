//! C08 — unknown events and longer payloads from newer versions never disturb known data.

use serde_json::{json, Value};

use super::*;
use crate::cmp::{diff_games, game_matches_model, CmpOpts};
use crate::model::{EndSpec, Ev, RawFile, Where};
use crate::rt::{self, run_dna, run_enum};

/// Adds 1..=3 unknown codes to the table and inserts up to `max` such events at event boundaries
/// after Game Start (never between/after a doubled Game End). Returns how many landed inside frames.
pub fn insert_unknown(raw: &mut RawFile, d: &mut Dna, max: usize) -> usize {
	let ncodes = 1 + d.below(3);
	let mut codes: Vec<(u8, u16)> = Vec::new();
	for _ in 0..ncodes {
		let mut c = d.u8();
		while spec::KNOWN_CODES.contains(&c) || codes.iter().any(|(k, _)| *k == c) || raw.table.iter().any(|(k, _)| *k == c) {
			c = c.wrapping_add(1);
		}
		let size = match d.u8() {
			0..=179 => 1 + d.below(40) as u16,
			180..=239 => 1 + d.below(600) as u16,
			250..=255 => 65535,
			_ => 1 + d.below(65535) as u16,
		};
		codes.push((c, size));
	}
	// table position: anywhere (the table is a map)
	for (c, s) in &codes {
		let pos = d.below(raw.table.len() + 1);
		raw.table.insert(pos, (*c, *s));
	}
	let double_end = raw.events.iter().filter(|e| e.code == spec::EV_GAME_END).count() >= 2;
	let first_end = raw.events.iter().position(|e| e.code == spec::EV_GAME_END);
	let n = 1 + d.below(max.max(1));
	let mut in_frame = 0;
	for _ in 0..n {
		let (c, s) = codes[d.below(codes.len())];
		// boundaries 1..=len (after Game Start); with an end present stay before it unless single end
		let hi = match (first_end, double_end) {
			(Some(e), true) => e,
			(Some(_), false) | (None, _) => raw.events.len(),
		};
		let pos = 1 + d.below(hi.max(1));
		let pos = pos.min(raw.events.len());
		let mut payload = vec![0u8; s as usize];
		let seed = d.u32();
		if seed != 0 {
			crate::gen::SplitMix(seed as u64).fill(&mut payload);
		}
		let at = if pos < raw.events.len() { raw.events[pos].at } else { Where::Other };
		if matches!(at, Where::Frame(_)) && pos > 0 && matches!(raw.events[pos - 1].at, Where::Frame(_) | Where::Start | Where::Gecko) {
			in_frame += 1;
		}
		raw.events.insert(pos, Ev::new(c, payload, at));
		// a single Game End may be followed by unknown events only if the end stays the last *known* event
	}
	// keep first_end semantics: unknown events after a single Game End are never read (reader stops at Game End);
	// they then count as "extra content after Game End", which is tolerated
	in_frame
}

struct Case {
	m: ModelGame,
	raw: RawFile,
	in_frame: usize,
	newer: bool,
}

fn gen_case(dna: &[u8], base: &crate::gen::GenCfg) -> Case {
	let mut d = Dna::new(dna);
	let mode = d.u8();
	let mut cfg = base.clone();
	let newer = mode >= 128;
	cfg.newer = newer;
	let unknown = mode % 128 < 96 || !newer;
	let udna: Vec<u8> = (0..96).map(|_| d.u8()).collect();
	let m = super::gen_model_mixed(&mut d, &cfg, true);
	let mut raw = m.raw();
	let mut in_frame = 0;
	if unknown {
		in_frame = insert_unknown(&mut raw, &mut Dna::new(&udna), 12);
	}
	Case { m, raw, in_frame, newer }
}

fn check(ctx: &Ctx, c: &Case, label: &str, counting: bool) -> Result<(), Fail> {
	let m = &c.m;
	let bytes = c.raw.serialize();
	super::sibling_history(&c.m, &bytes);
	let plain = m.encode();
	let extra_bytes = m.extra.pre + m.extra.post + m.extra.item + m.extra.fstart + m.extra.fend;
	let se_extra = m.extra.gstart + m.extra.gend;
	if counting {
		ctx.eval();
		let _ = classify(ctx, m);
		ctx.class(label);
		if c.in_frame > 0 {
			ctx.class("unknown_event_inside_frame");
		}
		if c.raw.events.len() > m.events().len() {
			ctx.class("unknown_events");
		}
		if c.newer {
			ctx.class("newer_version");
			ctx.class(if m.version.0 > 3 { "newer_major" } else { "newer_minor_or_patch" });
		}
		if extra_bytes > 0 {
			ctx.class("extra_trailing_bytes");
		}
		if se_extra > 0 {
			ctx.class("extra_bytes_on_game_start_or_end");
		}
		if (c.in_frame > 0 || (extra_bytes > 0 && !m.frames.is_empty())) && !m.frames.is_empty() {
			ctx.nontrivial(rt::hash_bytes(&bytes));
		}
		ctx.sample_k(label, 4, || json!({"model": m.summary(), "unknown_events": c.raw.events.len() - m.events().len(), "inside_frames": c.in_frame, "extra": format!("{:?}", m.extra)}));
	}
	let detail = json!({"model": m.summary(), "unknown_events": c.raw.events.len() - m.events().len(), "extra": format!("{:?}", m.extra)});
	let fail = |sig: &str, msg: String| Fail::new(format!("op=fwdcompat {}", sig), format!("v{}.{}.{}: {}", m.version.0, m.version.1, m.version.2, msg)).with_file("slp", &bytes).with_file("plain.slp", &plain).with_detail(detail.clone());
	let g = match rt::slp_read_default(&bytes) {
		rt::Out::Ok(g) => g,
		rt::Out::Err(e) => return Err(fail("read_err", format!("file with unknown events / longer payloads rejected: {}", e))),
		rt::Out::Panic(p) => return Err(fail(&format!("panic~{}", rt::panic_site(&p)), p)),
	};
	// (a) metamorphic: identical to the parse of the undisturbed file
	let g0 = rt::slp_read_default(&plain).expect_ok("slippi::read(plain)").map_err(|f| f.with_file("slp", &plain))?;
	// quirks compared only when Game End has its known size (see DESIGN C08)
	diff_games(&g, &g0, &CmpOpts { frames: true, hash: true, quirks: !c.newer }).map_err(|e| fail("differs_from_plain", format!("parse differs from the parse without unknown events: {}", e)))?;
	// (b) model: every known field has the model's value (extra bytes ignored), raw blocks retained
	game_matches_model(&g, m).map_err(|e| fail("differs_from_model", e))?;
	// (c) the reader's options must not matter to that: hashing, and skip-frames when the disturbed file
	// is still a finished replay (a Game End is its last event)
	let last_is_end = c.raw.events.last().map_or(false, |e| e.code == spec::EV_GAME_END);
	if last_is_end && c.raw.tail.is_empty() {
		if counting {
			ctx.class("skip_frames_also_checked");
		}
		let hash = bytes.len() % 2 == 0;
		let sk = match rt::slp_read(&bytes, true, hash) {
			rt::Out::Ok(g) => g,
			rt::Out::Err(e) => return Err(fail("skip_read_err", format!("skip-frames read of the disturbed file rejected: {}", e))),
			rt::Out::Panic(p) => return Err(fail(&format!("skip panic~{}", rt::panic_site(&p)), p)),
		};
		diff_games(&sk, &g, &CmpOpts { frames: false, hash: false, quirks: false }).map(|_| ()).or_else(|e| if e.contains("gecko") { Ok(()) } else { Err(e) }).map_err(|e| fail("skip_differs", format!("skip-frames parse differs in start/end/metadata: {}", e)))?;
	}
	Ok(())
}

fn forced(i: usize) -> Case {
	// every boundary of a small file gets one unknown event, in turn
	let vers = [(0, 1, 0), (2, 2, 0), (3, 0, 0), (3, 16, 0)];
	let ver = vers[i % vers.len()];
	let k = i / vers.len();
	let mut m = crate::gen::simple_model(ver, &[(0, false), (1, true)], 3, 11 + i as u64, crate::gen::Pattern::Distinct, 1, true);
	if spec::gte((ver.0, ver.1), (3, 3)) {
		m.gecko = Some(crate::model::Gecko { bytes: vec![3u8; 1024], actual: 700 });
	}
	if k % 7 == 6 {
		m.end = EndSpec::None;
	}
	let mut raw = m.raw();
	let pos = 1 + (k % raw.events.len());
	raw.table.push((0x01 + (k % 5) as u8, 1 + (k % 9) as u16));
	let at = if pos < raw.events.len() { raw.events[pos].at } else { Where::Other };
	let in_frame = matches!(at, Where::Frame(_)) as usize;
	raw.events.insert(pos, Ev::new(0x01 + (k % 5) as u8, vec![0xAB; 1 + (k % 9)], at));
	Case { m, raw, in_frame, newer: false }
}

/// A replay whose raw element is 2 GiB / ~4 GiB long because of tens of thousands of maximal unknown events
/// (generated on the fly by `readers::VirtualReplay`, never materialised): parsed in full and with
/// skip-frames (+hash), it must give the game of the same replay without the unknown events.
const VIRTUAL: [(u64, bool, bool); 6] = [(32_769, false, false), (32_769, true, false), (32_769, true, true), (65_000, true, false), (32_768, false, true), (65_000, false, false)];
fn virtual_case(ctx: &Ctx, i: usize, counting: bool) -> Result<(), Fail> {
	let (count, skip, hash) = VIRTUAL[i % VIRTUAL.len()];
	let m = crate::gen::simple_model([(3, 16, 0), (0, 1, 0), (2, 2, 0)][i % 3], &[(0, false), (2, i % 2 == 0)], 3, i as u64 + 31, crate::gen::Pattern::Random, 1 + (i % 2) as u8, true);
	if counting {
		ctx.eval();
		ctx.class("virtual_replay_2GiB+");
		ctx.nontrivial(rt::hash_bytes(&[i as u8, 0x56]));
		ctx.sample_k("virtual", 3, || json!({"unknown_events_of_65535_bytes": count, "raw_element_bytes": count * 65536, "skip_frames": skip, "compute_hash": hash, "model": m.summary()}));
	}
	let fail = |sig: &str, msg: String| Fail::new(format!("op=fwdcompat virtual {}", sig), format!("replay with {} unknown events of 65535 bytes (raw element of {} bytes), skip_frames={}, compute_hash={}: {}", count, count * 65536, skip, hash, msg)).with_detail(json!({"i": i}));
	let plain = m.encode();
	let g0 = rt::slp_read(&plain, skip, false).expect_ok("slippi::read(plain)")?;
	let mut r = crate::readers::VirtualReplay::new(&m, count);
	let o = rt::slp_opts(skip, hash);
	let g = match rt::guard(|| peppi::io::slippi::read(&mut r, Some(&o))) {
		rt::Out::Ok(g) => g,
		rt::Out::Err(e) => return Err(fail("read_err", format!("rejected: {}", e))),
		rt::Out::Panic(p) => return Err(fail(&format!("panic~{}", rt::panic_site(&p)), p)),
	};
	diff_games(&g, &g0, &CmpOpts { frames: true, hash: false, quirks: true }).map_err(|e| fail("differs_from_plain", e))?;
	if hash != g.hash.is_some() {
		return Err(fail("hash_presence", format!("hash {:?}", g.hash)));
	}
	Ok(())
}

pub fn case(ctx: &Ctx, kind: &str, params: &Value, counting: bool) -> Result<(), Fail> {
	match kind {
		"virtual" => virtual_case(ctx, params["i"].as_u64().unwrap_or(0) as usize, counting),
		"forced" => check(ctx, &forced(params["i"].as_u64().unwrap_or(0) as usize), "forced", counting),
		_ => check(ctx, &gen_case(&dna_param(params), &cfg_for(ctx)), "dna", counting),
	}
}

pub fn run(ctx: &Ctx) -> usize {
	ctx.set_rule("generated replays + (a) 1-3 unknown event codes (any code outside {0x10, 0x35-0x3D}, sizes 1..65535) declared in the payload table and 1-12 such events inserted at event boundaries after Game Start (between splitter blocks, inside frames, between frames, before/after a single Game End; never between/after a doubled Game End), every boundary of 4 small files enumerated; (b) versions > 3.16.0 (3.16.x, 3.17-3.255, majors 4-255) with 0-40 extra trailing bytes on each known frame event; oracle: parse succeeds, equals the parse of the undisturbed file (metamorphic) and equals the model field by field (raw start/end blocks retained); non-trivial = an unknown event inside a frame or extra bytes on a frame event, with >=1 frame; distinct by xxh3 of the file");
	ctx.assume("quirk flags are compared only in (a): with a newer version the duplicate-Game-End heuristic is a round-trip aid, not a replay field");
	let mut violations = 0;
	if run_enum(ctx, "forced", 4 * ctx.n(60, 240), |i| json!({ "i": i }), |i| check(ctx, &forced(i), "forced", true)).is_some() {
		violations += 1;
	}
	if violations == 0 && run_enum(ctx, "virtual", ctx.n(VIRTUAL.len(), 3 * VIRTUAL.len()), |i| json!({ "i": i }), |i| virtual_case(ctx, i, true)).is_some() {
		violations += 1;
	}
	let cfg = cfg_for(ctx);
	if run_dna(ctx, "dna", ctx.n(50_000, 2_500_000), dna_max(ctx), |dna, counting| check(ctx, &gen_case(dna, &cfg), "dna", counting)).is_some() {
		violations += 1;
	}
	violations
}
