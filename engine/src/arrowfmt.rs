//! Minimal Arrow-IPC *file* framing parser (enough to name the region a byte offset falls in).

#[derive(Clone, Debug)]
pub struct Region {
	pub start: usize,
	pub end: usize,
	pub name: &'static str,
}

fn u32le(b: &[u8], o: usize) -> Option<u32> {
	b.get(o..o + 4).map(|x| u32::from_le_bytes(x.try_into().unwrap()))
}

/// bodyLength of a flatbuffer-encoded Message (field index 3)
fn body_length(meta: &[u8]) -> Option<i64> {
	let root = u32le(meta, 0)? as usize;
	let soff = i32::from_le_bytes(meta.get(root..root + 4)?.try_into().ok()?);
	let vt = (root as i64 - soff as i64) as usize;
	let vlen = u16::from_le_bytes(meta.get(vt..vt + 2)?.try_into().ok()?) as usize;
	if vlen < 12 {
		return Some(0);
	}
	let foff = u16::from_le_bytes(meta.get(vt + 10..vt + 12)?.try_into().ok()?) as usize;
	if foff == 0 {
		return Some(0);
	}
	Some(i64::from_le_bytes(meta.get(root + foff..root + foff + 8)?.try_into().ok()?))
}

/// Regions of an Arrow IPC file: magic, schema message, record batch metadata / body, EOS, footer, trailing magic.
pub fn regions(b: &[u8]) -> Option<Vec<Region>> {
	let mut r = Vec::new();
	if b.len() < 8 || &b[..6] != b"ARROW1" {
		return None;
	}
	r.push(Region { start: 0, end: 8, name: "arrow:magic" });
	let mut off = 8;
	let mut msg = 0;
	loop {
		let cont = u32le(b, off)?;
		let (len, hdr) = if cont == 0xFFFF_FFFF { (u32le(b, off + 4)? as usize, 8) } else { (cont as usize, 4) };
		if len == 0 {
			r.push(Region { start: off, end: off + hdr, name: "arrow:eos" });
			off += hdr;
			break;
		}
		let meta = b.get(off + hdr..off + hdr + len)?;
		let body = body_length(meta)? as usize;
		r.push(Region { start: off, end: off + hdr + len, name: if msg == 0 { "arrow:schema_message" } else { "arrow:batch_metadata" } });
		off += hdr + len;
		if body > 0 {
			r.push(Region { start: off, end: off + body, name: "arrow:batch_body" });
			off += body;
		}
		msg += 1;
		if msg > 16 {
			return None;
		}
	}
	if b.len() >= off + 10 {
		r.push(Region { start: off, end: b.len() - 10, name: "arrow:footer" });
		r.push(Region { start: b.len() - 10, end: b.len(), name: "arrow:footer_len_and_magic" });
	}
	Some(r)
}
