//! Runtime: panic capture, peppi call wrappers, evidence, proptest driver, VIOLATION plumbing.

use std::collections::{BTreeMap, HashSet};
use std::io::Cursor;
use std::panic::{catch_unwind, AssertUnwindSafe};
use std::sync::atomic::{AtomicBool, AtomicU64, Ordering};
use std::sync::Mutex;
use std::time::Instant;

use peppi::game::immutable::Game;
use proptest::test_runner::{Config, RngAlgorithm, RngSeed, TestCaseError, TestError, TestRunner};
#[allow(unused)]
type _Unused = TestCaseError;
#[allow(unused_imports)]
use proptest::test_runner::Reason;
use serde_json::{json, Value};

thread_local! {
	static LAST_PANIC: std::cell::RefCell<Option<String>> = std::cell::RefCell::new(None);
}

/// A logger that discards everything. With the maximum level at `Trace` every `info!`/`debug!`/`trace!`
/// call site in peppi evaluates its argument expressions (a host application with logging switched on);
/// with `Off` none does. The checks alternate between the two (see `run_dna` / `run_enum`).
struct NullLogger;
impl log::Log for NullLogger {
	fn enabled(&self, _: &log::Metadata) -> bool {
		true
	}
	fn log(&self, r: &log::Record) {
		// format the message (argument expressions are evaluated by the macro; formatting runs Display impls)
		use std::io::Write;
		let _ = write!(std::io::sink(), "{}", r.args());
	}
	fn flush(&self) {}
}
static NULL_LOGGER: NullLogger = NullLogger;
pub static LOGGED_PHASES: AtomicU64 = AtomicU64::new(0);

pub fn set_logging(on: bool) {
	static INIT: std::sync::Once = std::sync::Once::new();
	INIT.call_once(|| {
		let _ = log::set_logger(&NULL_LOGGER);
	});
	log::set_max_level(if on { log::LevelFilter::Trace } else { log::LevelFilter::Off });
	if on {
		LOGGED_PHASES.fetch_add(1, Ordering::Relaxed);
	}
}

pub fn install_panic_hook() {
	std::panic::set_hook(Box::new(|info| {
		let msg = if let Some(s) = info.payload().downcast_ref::<&str>() {
			s.to_string()
		} else if let Some(s) = info.payload().downcast_ref::<String>() {
			s.clone()
		} else {
			"<non-string panic>".to_string()
		};
		let loc = info.location().map(|l| format!("{}:{}", l.file(), l.line())).unwrap_or_default();
		let full = format!("{} @ {}", msg, loc);
		if std::env::var("PV_SHOW_PANICS").is_ok() {
			eprintln!("[panic] {}", full);
		}
		LAST_PANIC.with(|p| *p.borrow_mut() = Some(full));
	}));
}

/// Outcome of a guarded peppi call.
#[derive(Debug)]
pub enum Out<T> {
	Ok(T),
	Err(String),
	Panic(String),
}

impl<T> Out<T> {
	pub fn kind(&self) -> &'static str {
		match self {
			Out::Ok(_) => "ok",
			Out::Err(_) => "err",
			Out::Panic(_) => "panic",
		}
	}
	/// Ok value or a Fail describing why `op` should have succeeded.
	pub fn expect_ok(self, op: &str) -> Result<T, Fail> {
		match self {
			Out::Ok(t) => Ok(t),
			Out::Err(e) => Err(Fail::new(format!("op={} err", op), format!("{} returned Err: {}", op, e))),
			Out::Panic(p) => Err(Fail::new(format!("op={} panic~{}", op, panic_site(&p)), format!("{} panicked: {}", op, p))),
		}
	}
}

/// stable part of a panic text: the location
pub fn panic_site(p: &str) -> String {
	let loc = p.rsplit(" @ ").next().unwrap_or("");
	// keep the crate-relative part only (registry paths differ between machines)
	match loc.find("/registry/src/") {
		Some(i) => loc[i + 14..].splitn(2, '/').nth(1).unwrap_or(loc).to_string(),
		None => loc.replace("/repo/", ""),
	}
}

pub fn guard<T, E: std::fmt::Display>(f: impl FnOnce() -> Result<T, E>) -> Out<T> {
	match catch_unwind(AssertUnwindSafe(f)) {
		Ok(Ok(t)) => Out::Ok(t),
		Ok(Err(e)) => Out::Err(e.to_string()),
		Err(_) => Out::Panic(LAST_PANIC.with(|p| p.borrow_mut().take()).unwrap_or_else(|| "<unknown>".into())),
	}
}

pub fn slp_opts(skip: bool, hash: bool) -> peppi::io::slippi::de::Opts {
	peppi::io::slippi::de::Opts { skip_frames: skip, compute_hash: hash, debug: None }
}

// ---- transports -------------------------------------------------------------------------------
// Every wrapper below picks, as a pure function of its input, *how* the bytes reach peppi: a plain
// cursor, a BufReader, or a reader that hands out short reads (and, for writers, a sink that accepts
// short writes and implements only `write`/`flush`). peppi's readers take any `Read (+ Seek)` and its
// writers any `Write`, so every one of these must behave identically; the choice is deterministic so
// that a replay file reproduces it.

pub const TRANSPORTS: [&str; 16] = [
	"r:cursor", "r:bufreader(37)", "r:bufreader(8192)", "r:fixed(1)", "r:fixed(3)", "r:fixed(7)", "r:fixed(64)", "r:random", "r:split",
	"w:vec", "w:cursor", "w:short(1)", "w:short(5)", "w:short(509)", "w:bufwriter(13)+short", "r:embedded",
];
pub static TRANSPORT_COUNTS: [AtomicU64; 16] = [const { AtomicU64::new(0) }; 16];
thread_local! {
	static VIA_LOG: std::cell::RefCell<std::collections::VecDeque<&'static str>> = std::cell::RefCell::new(Default::default());
}
fn via(i: usize) {
	TRANSPORT_COUNTS[i].fetch_add(1, Ordering::Relaxed);
	VIA_LOG.with(|l| {
		let mut l = l.borrow_mut();
		if l.len() >= 8 {
			l.pop_front();
		}
		l.push_back(TRANSPORTS[i]);
	});
}
/// the transports of the last (up to 8) peppi calls made on this thread, oldest first
pub fn recent_transports() -> Vec<&'static str> {
	VIA_LOG.with(|l| l.borrow().iter().copied().collect())
}
pub fn transport_counts() -> BTreeMap<String, u64> {
	TRANSPORTS.iter().enumerate().map(|(i, n)| (n.to_string(), TRANSPORT_COUNTS[i].load(Ordering::Relaxed))).filter(|(_, c)| *c > 0).collect()
}

fn selector(bytes: &[u8]) -> u64 {
	let n = bytes.len();
	let mut h = xxhash_rust::xxh3::xxh3_64(&bytes[..n.min(48)]);
	h ^= xxhash_rust::xxh3::xxh3_64(&bytes[n - n.min(48)..]).rotate_left(17);
	h ^ (n as u64).wrapping_mul(0x9e3779b97f4a7c15)
}

/// reader schedule for `bytes` (None = plain cursor / BufReader handled by the caller)
fn pick_reader(bytes: &[u8]) -> (usize, Option<crate::readers::Schedule>) {
	use crate::readers::Schedule as S;
	if std::env::var_os("PV_PLAIN_TRANSPORT").is_some() {
		return (0, None);
	}
	let h = selector(bytes);
	let n = bytes.len();
	match h % 16 {
		0..=4 => (0, None),
		5 => (1, None),
		6 => (2, None),
		7 | 8 => {
			if n <= 1 << 16 {
				(3, Some(S::Fixed(1)))
			} else {
				(6, Some(S::Fixed(64)))
			}
		}
		9 => {
			if n <= 1 << 18 {
				(4, Some(S::Fixed(3)))
			} else {
				(6, Some(S::Fixed(64)))
			}
		}
		10 => (5, Some(S::Fixed(7))),
		11 => (6, Some(S::Fixed(64))),
		12 | 13 => (7, Some(S::Random((h >> 8) | 1, [2usize, 5, 16, 100, 700][(h >> 40) as usize % 5]))),
		_ => (8, Some(S::Split((h >> 8) as usize % n.max(1)))),
	}
}

fn sched_reader(bytes: &[u8], s: crate::readers::Schedule) -> crate::readers::SchedReader<'_> {
	let mut r = crate::readers::SchedReader::new(bytes, s);
	r.budget = usize::MAX;
	r
}

/// Runs `f` with a private, empty scratch directory (for `Opts::debug`, which dumps event payloads into
/// a directory) and removes it afterwards.
/// How many more cases of this process may exercise `Opts::debug` (each writes one small file per event:
/// cheap on a local disk, very slow on some sandbox file systems, so the total is bounded per run).
pub static DEBUG_BUDGET: std::sync::atomic::AtomicI64 = std::sync::atomic::AtomicI64::new(600);
pub fn debug_budget_take() -> bool {
	DEBUG_BUDGET.fetch_sub(1, Ordering::Relaxed) > 0
}

pub fn with_debug_dir<T>(f: impl FnOnce(&std::path::Path) -> T) -> T {
	static N: AtomicU64 = AtomicU64::new(0);
	// a memory-backed directory when there is one, else the work directory of the checks
	let shm = std::path::Path::new("/dev/shm");
	let base = if shm.is_dir() && std::fs::create_dir_all(shm.join("pv-work")).is_ok() {
		shm.join("pv-work")
	} else {
		std::env::var("PV_ROOT").map(std::path::PathBuf::from).unwrap_or_else(|_| std::path::PathBuf::from("/verif")).join("work")
	};
	let dir = base.join(format!("dbg-{}-{}", std::process::id(), N.fetch_add(1, Ordering::Relaxed)));
	let _ = std::fs::create_dir_all(&dir);
	let out = f(&dir);
	let _ = std::fs::remove_dir_all(&dir);
	out
}

pub fn slp_read_opts(bytes: &[u8], o: Option<&peppi::io::slippi::de::Opts>) -> Out<Game> {
	use std::io::BufReader;
	let (label, sched) = pick_reader(bytes);
	via(label);
	match (label, sched) {
		(_, Some(s)) => {
			let mut r = sched_reader(bytes, s);
			guard(|| peppi::io::slippi::read(&mut r, o))
		}
		(1, _) => guard(|| peppi::io::slippi::read(BufReader::with_capacity(37, Cursor::new(bytes)), o)),
		(2, _) => guard(|| peppi::io::slippi::read(BufReader::new(Cursor::new(bytes)), o)),
		_ => guard(|| peppi::io::slippi::read(Cursor::new(bytes), o)),
	}
}

pub fn slp_read(bytes: &[u8], skip: bool, hash: bool) -> Out<Game> {
	let o = slp_opts(skip, hash);
	slp_read_opts(bytes, Some(&o))
}

pub fn slp_read_default(bytes: &[u8]) -> Out<Game> {
	slp_read_opts(bytes, None)
}

/// A replay embedded in a larger stream: `stream[at..at+len]` is the replay, the reader is handed
/// over positioned at `at` (a second replay in a concatenated dump, an archive member, ...).
pub fn slp_read_embedded(stream: &[u8], at: usize, o: Option<&peppi::io::slippi::de::Opts>) -> (Out<Game>, usize) {
	via(15);
	let (_, sched) = pick_reader(&stream[at..]);
	let mut r = sched_reader(stream, sched.unwrap_or(crate::readers::Schedule::Full));
	r.pos = at;
	let out = guard(|| peppi::io::slippi::read(&mut r, o));
	(out, r.pos)
}

/// `Write` sink that accepts at most `cap` bytes per call and implements nothing beyond `write`/`flush`.
pub struct ShortWriter {
	pub out: Vec<u8>,
	pub cap: usize,
	pub writes: usize,
}
impl std::io::Write for ShortWriter {
	fn write(&mut self, buf: &[u8]) -> std::io::Result<usize> {
		let n = buf.len().min(self.cap.max(1));
		self.out.extend_from_slice(&buf[..n]);
		self.writes += 1;
		Ok(n)
	}
	fn flush(&mut self) -> std::io::Result<()> {
		Ok(())
	}
}

/// run `f` against the writer transport chosen by `h`; returns what reached the sink
fn with_writer<E: std::fmt::Display>(h: u64, big: bool, f: impl FnOnce(&mut dyn std::io::Write) -> Result<(), E>) -> Out<Vec<u8>> {
	use std::io::{BufWriter, Write};
	let plain = std::env::var_os("PV_PLAIN_TRANSPORT").is_some();
	let k = if plain { 0 } else { h % 12 };
	match k {
		0..=4 => {
			via(9);
			guard(|| {
				let mut v = Vec::new();
				f(&mut v).map(|_| v)
			})
		}
		5 | 6 => {
			via(10);
			guard(|| {
				let mut c = Cursor::new(Vec::new());
				f(&mut c).map(|_| c.into_inner())
			})
		}
		7 | 8 | 9 => {
			let (label, cap) = match (k, big) {
				(7, false) => (11, 1),
				(8, false) => (12, 5),
				_ => (13, 509),
			};
			via(label);
			guard(|| {
				let mut w = ShortWriter { out: Vec::new(), cap, writes: 0 };
				f(&mut w).map(|_| w.out)
			})
		}
		_ => {
			via(14);
			let mut w = ShortWriter { out: Vec::new(), cap: if big { 509 } else { 3 }, writes: 0 };
			let r = guard(|| {
				let mut b = BufWriter::with_capacity(13, &mut w);
				f(&mut b).map_err(|e| e.to_string())?;
				b.flush().map_err(|e| e.to_string())
			});
			match r {
				Out::Ok(()) => Out::Ok(w.out),
				Out::Err(e) => Out::Err(e),
				Out::Panic(p) => Out::Panic(p),
			}
		}
	}
}

fn game_selector(g: &Game) -> u64 {
	selector(&g.start.bytes.0) ^ (g.frames.len() as u64).wrapping_mul(0x51ed270b0a1f3d59) ^ g.metadata.as_ref().map_or(7, |m| m.len() as u64 + 11)
}

pub fn slp_write(g: &Game) -> Out<Vec<u8>> {
	let big = g.frames.len() > 2000;
	with_writer(game_selector(g), big, |mut w| peppi::io::slippi::write(&mut w, g))
}

#[derive(Clone, Copy, Debug, PartialEq, Eq, Hash)]
pub enum Comp {
	None,
	Lz4,
	Zstd,
}

impl Comp {
	pub const ALL: [Comp; 3] = [Comp::None, Comp::Lz4, Comp::Zstd];
	pub fn name(self) -> &'static str {
		match self {
			Comp::None => "none",
			Comp::Lz4 => "lz4",
			Comp::Zstd => "zstd",
		}
	}
	pub fn from_name(s: &str) -> Comp {
		match s {
			"lz4" => Comp::Lz4,
			"zstd" => Comp::Zstd,
			_ => Comp::None,
		}
	}
}

pub fn slpp_write(g: Game, c: Comp) -> Out<Vec<u8>> {
	use peppi::io::peppi::ser::Opts;
	let o = Opts {
		compression: match c {
			Comp::None => None,
			Comp::Lz4 => Some(arrow2::io::ipc::write::Compression::LZ4),
			Comp::Zstd => Some(arrow2::io::ipc::write::Compression::ZSTD),
		},
	};
	// `opts: None` is a documented way to ask for "no compression": exercised for half of those calls
	let pass_none = c == Comp::None && g.frames.len() % 2 == 0;
	let big = g.frames.len() > 2000;
	let h = game_selector(&g).rotate_left(23) ^ c as u64;
	with_writer(h, big, move |w| peppi::io::peppi::write(w, g, if pass_none { None } else { Some(&o) }).map_err(|e| e.to_string()))
}

pub fn slpp_read(bytes: &[u8], skip: bool) -> Out<Game> {
	use std::io::BufReader;
	let o = peppi::io::peppi::de::Opts { skip_frames: skip };
	// `opts: None` means "read everything": exercised for half of the non-skip calls
	let pass_none = !skip && (bytes.len() / 512) % 2 == 0;
	let o = if pass_none { None } else { Some(&o) };
	let (label, sched) = pick_reader(bytes);
	via(label);
	match (label, sched) {
		(_, Some(s)) => {
			let mut r = sched_reader(bytes, s);
			guard(|| peppi::io::peppi::read(&mut r, o))
		}
		(1, _) => guard(|| peppi::io::peppi::read(BufReader::with_capacity(37, Cursor::new(bytes)), o)),
		(2, _) => guard(|| peppi::io::peppi::read(BufReader::new(Cursor::new(bytes)), o)),
		_ => guard(|| peppi::io::peppi::read(Cursor::new(bytes), o)),
	}
}

// ---------------------------------------------------------------------------------------------

#[derive(Clone, Debug)]
pub struct Fail {
	/// signature used to match KNOWN_FINDINGS entries
	pub sig: String,
	pub msg: String,
	/// extra artefacts written next to the replay JSON: (extension, bytes)
	pub files: Vec<(String, Vec<u8>)>,
	pub detail: Value,
	/// transports of the peppi calls that led up to this failure (same thread, oldest first)
	pub transports: Vec<&'static str>,
}

impl Fail {
	pub fn new(sig: impl Into<String>, msg: impl Into<String>) -> Self {
		Fail { sig: sig.into(), msg: msg.into(), files: Vec::new(), detail: Value::Null, transports: recent_transports() }
	}
	pub fn with_file(mut self, ext: &str, bytes: &[u8]) -> Self {
		if !self.files.iter().any(|(e, _)| e == ext) {
			self.files.push((ext.to_string(), bytes.to_vec()));
		}
		self
	}
	pub fn with_detail(mut self, v: Value) -> Self {
		self.detail = v;
		self
	}
}

#[derive(Clone, Copy, Debug, PartialEq, Eq)]
pub enum Tier {
	Quick,
	Thorough,
}

pub struct Known {
	pub prop: String,
	pub sig: String,
	pub text: String,
}

pub struct Ctx {
	pub prop: String,
	pub tier: Tier,
	pub seed: u64,
	pub level: &'static str,
	pub root: String,
	pub evaluations: AtomicU64,
	pub distinct: Mutex<HashSet<u64>>,
	pub classes: Mutex<BTreeMap<String, u64>>,
	pub samples: Mutex<Vec<Value>>,
	pub extra: Mutex<BTreeMap<String, Value>>,
	pub rule: Mutex<String>,
	pub assumptions: Mutex<Vec<String>>,
	pub exhaustive: AtomicBool,
	pub known: Vec<Known>,
	pub known_hits: Mutex<BTreeMap<String, u64>>,
	pub started: Instant,
	/// set when a worker found a failure: others stop generating
	pub stop: AtomicBool,
	pub replay_mode: bool,
}

pub const WORKERS: usize = 16;
const MAX_SAMPLES: usize = 8;

impl Ctx {
	pub fn new(prop: &str, tier: Tier, seed: u64, level: &'static str, root: &str) -> Self {
		let known = load_known(root);
		Ctx {
			prop: prop.to_string(),
			tier,
			seed,
			level,
			root: root.to_string(),
			evaluations: AtomicU64::new(0),
			distinct: Mutex::new(HashSet::new()),
			classes: Mutex::new(BTreeMap::new()),
			samples: Mutex::new(Vec::new()),
			extra: Mutex::new(BTreeMap::new()),
			rule: Mutex::new(String::new()),
			assumptions: Mutex::new(Vec::new()),
			exhaustive: AtomicBool::new(false),
			known,
			known_hits: Mutex::new(BTreeMap::new()),
			started: Instant::now(),
			stop: AtomicBool::new(false),
			replay_mode: false,
		}
	}
	pub fn quick(&self) -> bool {
		self.tier == Tier::Quick
	}
	/// pick by tier
	pub fn n(&self, quick: usize, thorough: usize) -> usize {
		match self.tier {
			Tier::Quick => quick,
			Tier::Thorough => thorough,
		}
	}
	pub fn eval(&self) {
		self.evaluations.fetch_add(1, Ordering::Relaxed);
	}
	pub fn evals(&self, n: u64) {
		self.evaluations.fetch_add(n, Ordering::Relaxed);
	}
	pub fn nontrivial(&self, h: u64) {
		self.distinct.lock().unwrap().insert(h);
	}
	pub fn class(&self, label: &str) {
		*self.classes.lock().unwrap().entry(label.to_string()).or_insert(0) += 1;
	}
	pub fn class_n(&self, label: &str, n: u64) {
		*self.classes.lock().unwrap().entry(label.to_string()).or_insert(0) += n;
	}
	pub fn want_sample(&self) -> bool {
		self.samples.lock().unwrap().len() < MAX_SAMPLES
	}
	pub fn sample(&self, v: Value) {
		let mut s = self.samples.lock().unwrap();
		if s.len() < MAX_SAMPLES {
			s.push(v);
		}
	}
	/// keep at most `per` samples carrying this label
	pub fn sample_k(&self, label: &str, per: usize, v: impl FnOnce() -> Value) {
		let mut s = self.samples.lock().unwrap();
		let have = s.iter().filter(|x| x.get("kind").and_then(|k| k.as_str()) == Some(label)).count();
		if have < per && s.len() < 24 {
			let mut val = v();
			if let Value::Object(o) = &mut val {
				o.insert("kind".into(), json!(label));
			} else {
				val = json!({"kind": label, "case": val});
			}
			s.push(val);
		}
	}
	pub fn set_rule(&self, r: &str) {
		*self.rule.lock().unwrap() = r.to_string();
	}
	pub fn assume(&self, a: &str) {
		self.assumptions.lock().unwrap().push(a.to_string());
	}
	pub fn put(&self, k: &str, v: Value) {
		self.extra.lock().unwrap().insert(k.to_string(), v);
	}
	pub fn add(&self, k: &str, n: u64) {
		let mut e = self.extra.lock().unwrap();
		let cur = e.get(k).and_then(|v| v.as_u64()).unwrap_or(0);
		e.insert(k.to_string(), json!(cur + n));
	}
	pub fn class_count(&self, label: &str) -> u64 {
		self.classes.lock().unwrap().get(label).copied().unwrap_or(0)
	}

	/// Is this failure a listed known finding? (records the hit)
	pub fn is_known(&self, f: &Fail) -> bool {
		for k in &self.known {
			if k.prop == self.prop && f.sig.starts_with(&k.sig) {
				*self.known_hits.lock().unwrap().entry(k.text.clone()).or_insert(0) += 1;
				return true;
			}
		}
		false
	}

	pub fn write_evidence(&self, violations: usize) {
		let classes: BTreeMap<String, u64> = self.classes.lock().unwrap().clone();
		let mut cov = serde_json::Map::new();
		cov.insert("evaluations".into(), json!(self.evaluations.load(Ordering::Relaxed)));
		cov.insert("distinct_nontrivial".into(), json!(self.distinct.lock().unwrap().len()));
		cov.insert("rule".into(), json!(self.rule.lock().unwrap().clone()));
		cov.insert("samples".into(), json!(self.samples.lock().unwrap().clone()));
		cov.insert("classes".into(), json!(classes));
		if self.exhaustive.load(Ordering::Relaxed) {
			cov.insert("exhaustive".into(), json!(true));
		}
		for (k, v) in self.extra.lock().unwrap().iter() {
			cov.insert(k.clone(), v.clone());
		}
		{
			let w = crate::props::HISTORIES[0].load(Ordering::Relaxed);
			let sb = crate::props::HISTORIES[1].load(Ordering::Relaxed);
			if w + sb > 0 {
				cov.insert("call_histories".into(), json!({"cases_preceded_by_a_different_configuration_workload_incl_failing_calls": w, "cases_preceded_by_a_near_identical_sibling_incl_failing_calls": sb}));
			}
		}
		cov.insert("phases_run_with_logging_enabled".into(), json!(LOGGED_PHASES.load(Ordering::Relaxed)));
		let tc = transport_counts();
		if !tc.is_empty() {
			cov.insert("transports".into(), json!(tc));
		}
		let kh = self.known_hits.lock().unwrap().clone();
		if !kh.is_empty() {
			cov.insert("known_finding_hits".into(), json!(kh));
		}
		let ev = json!({
			"property_id": self.prop,
			"tier": match self.tier { Tier::Quick => "quick", Tier::Thorough => "thorough" },
			"seed": self.seed,
			"level": self.level,
			"coverage": Value::Object(cov),
			"assumptions": self.assumptions.lock().unwrap().clone(),
			"wall_s": self.started.elapsed().as_secs_f64(),
			"violations": violations,
		});
		let dir = format!("{}/evidence", self.root);
		let _ = std::fs::create_dir_all(&dir);
		let path = format!("{}/{}.json", dir, self.prop);
		std::fs::write(&path, serde_json::to_string_pretty(&ev).unwrap()).expect("write evidence");
	}

	/// Writes the replay JSON (+ artefacts) and prints the VIOLATION line. Returns the path.
	pub fn report(&self, kind: &str, params: &Value, f: &Fail) -> String {
		let dir = format!("{}/replays/{}", self.root, self.prop);
		let _ = std::fs::create_dir_all(&dir);
		let body = json!({
			"property": self.prop,
			"kind": kind,
			"params": params,
			"signature": f.sig,
			"message": f.msg,
			"detail": f.detail,
			"seed": self.seed,
			"recent_transports": f.transports,
		});
		let text = serde_json::to_string_pretty(&body).unwrap();
		let h = xxhash_rust::xxh3::xxh3_64(format!("{}{}", kind, params).as_bytes());
		let base = format!("{}/{:016x}", dir, h);
		let path = format!("{}.json", base);
		std::fs::write(&path, text).expect("write replay");
		for (ext, bytes) in &f.files {
			let _ = std::fs::write(format!("{}.{}", base, ext), bytes);
		}
		println!("VIOLATION property={} replay={}", self.prop, path);
		println!("  {}: {}", f.sig, f.msg);
		path
	}
}

fn load_known(root: &str) -> Vec<Known> {
	let mut v = Vec::new();
	if let Ok(s) = std::fs::read_to_string(format!("{}/KNOWN_FINDINGS.txt", root)) {
		for line in s.lines() {
			let line = line.trim();
			if let Some(rest) = line.strip_prefix("known:") {
				// known: property=Cxx sig=<signature until ' :: '> :: text
				let rest = rest.trim();
				let prop = rest.split_whitespace().find_map(|t| t.strip_prefix("property=")).unwrap_or("").to_string();
				if let Some(i) = rest.find("sig=") {
					let after = &rest[i + 4..];
					let (sig, text) = match after.find(" :: ") {
						Some(j) => (&after[..j], &after[j + 4..]),
						None => (after, after),
					};
					v.push(Known { prop, sig: sig.trim().to_string(), text: text.trim().to_string() });
				}
			}
		}
	}
	v
}

/// Keys of the deterministic predecessor ("warm-up") that runs before a case — see props::warmup.
pub fn warm_key_dna(dna: &[u8]) -> u64 {
	xxhash_rust::xxh3::xxh3_64(dna) ^ 0x77
}
pub fn warm_key_enum(kind: &str, i: usize) -> u64 {
	xxhash_rust::xxh3::xxh3_64(format!("{}#{}", kind, i).as_bytes())
}

pub fn hash_bytes(b: &[u8]) -> u64 {
	xxhash_rust::xxh3::xxh3_64(b)
}

pub fn hex(b: &[u8]) -> String {
	b.iter().map(|x| format!("{:02x}", x)).collect()
}

pub fn unhex(s: &str) -> Vec<u8> {
	(0..s.len() / 2).map(|i| u8::from_str_radix(&s[2 * i..2 * i + 2], 16).unwrap_or(0)).collect()
}

thread_local! {
	/// the case evaluated before the current one on this thread (for failures that depend on call history)
	static PREV_DNA: std::cell::RefCell<Vec<u8>> = std::cell::RefCell::new(Vec::new());
}

/// run `g` on a brand-new thread (fresh thread-locals)
fn on_fresh_thread<T: Send>(g: impl FnOnce() -> T + Send) -> T {
	std::thread::scope(|s| s.spawn(g).join().expect("fresh thread"))
}

/// One generated-case kind of a property: `f(dna, counting)`.
/// Runs `cases` proptest cases split over WORKERS fixed worker threads; on a failure the DNA is
/// shrunk by proptest, a candidate that reproduces on a fresh thread is chosen (see below), reported, and Some(path) returned.
pub fn run_dna<F>(ctx: &Ctx, kind: &str, cases: usize, dna_max: usize, f: F) -> Option<String>
where
	F: Fn(&[u8], bool) -> Result<(), Fail> + Sync,
{
	// three quarters of the cases with logging off (the default of a host application), one quarter with
	// every log call site live (see `set_logging`); the phases run one after the other because the level is global
	let on = cases / 4;
	set_logging(false);
	let r = run_dna_phase(ctx, kind, cases - on, dna_max, &f, false);
	if r.is_some() || on == 0 {
		return r;
	}
	set_logging(true);
	let r = run_dna_phase(ctx, kind, on, dna_max, &f, true);
	set_logging(false);
	r
}

fn run_dna_phase<F>(ctx: &Ctx, kind: &str, cases: usize, dna_max: usize, f: &F, logging: bool) -> Option<String>
where
	F: Fn(&[u8], bool) -> Result<(), Fail> + Sync,
{
	use proptest::prelude::*;
	if ctx.stop.load(Ordering::Relaxed) {
		return None;
	}
	let per = (cases + WORKERS - 1) / WORKERS;
	let label_hash = xxhash_rust::xxh3::xxh3_64((if logging { format!("{}/{}/logging", ctx.prop, kind) } else { format!("{}/{}", ctx.prop, kind) }).as_bytes());
	// (dna, history, fail)
	let found: Mutex<Option<(Vec<u8>, Vec<Vec<u8>>, Fail)>> = Mutex::new(None);
	let inner = f;
	let f = |dna: &[u8], counting: bool| {
		crate::props::warmup(warm_key_dna(dna));
		inner(dna, counting)
	};
	std::thread::scope(|s| {
		for w in 0..WORKERS {
			let f = &f;
			let found = &found;
			s.spawn(move || {
				let cfg = Config {
					cases: per as u32,
					rng_seed: RngSeed::Fixed(ctx.seed ^ label_hash ^ (w as u64).wrapping_mul(0x9E3779B97F4A7C15)),
					rng_algorithm: RngAlgorithm::ChaCha,
					failure_persistence: None,
					max_shrink_iters: 3000,
					max_shrink_time: 60_000,
					..Config::default()
				};
				let mut runner = TestRunner::new(cfg);
				let failed = AtomicBool::new(false);
				let last_fail: Mutex<Option<Fail>> = Mutex::new(None);
				// the first failing case as generated (before shrinking) and its predecessor on this thread
				let first: Mutex<Option<(Vec<u8>, Vec<u8>)>> = Mutex::new(None);
				let strat = proptest::collection::vec(any::<u8>(), dna_max.min(96)..=dna_max);
				let r = runner.run(&strat, |dna| {
					let counting = !failed.load(Ordering::Relaxed);
					if counting && ctx.stop.load(Ordering::Relaxed) {
						return Ok(());
					}
					let prev = PREV_DNA.with(|p| std::mem::replace(&mut *p.borrow_mut(), dna.clone()));
					match f(&dna, counting) {
						Ok(()) => Ok(()),
						Err(fail) => {
							if ctx.is_known(&fail) {
								return Ok(());
							}
							if counting {
								*first.lock().unwrap() = Some((dna.clone(), prev));
							}
							failed.store(true, Ordering::Relaxed);
							ctx.stop.store(true, Ordering::Relaxed);
							let msg = fail.sig.clone();
							*last_fail.lock().unwrap() = Some(fail);
							Err(TestCaseError::fail(msg))
						}
					}
				});
				if let Err(TestError::Fail(_, dna)) = r {
					// A failure must be reproducible from the replay file, i.e. from a fresh thread. Shrinking
					// evaluates near-identical cases back to back, so if peppi keeps hidden state between calls
					// the shrunk case may fail only because of its predecessor in the shrink sequence. Candidates,
					// each tried on a brand-new thread: the shrunk case; the case as first generated; that case
					// preceded by the case that ran before it on this thread.
					let (first_dna, prev) = first.lock().unwrap().clone().unwrap_or_else(|| (dna.clone(), Vec::new()));
					let alone = |d: &Vec<u8>| on_fresh_thread(|| f(d, false).err());
					let chosen: (Vec<u8>, Vec<Vec<u8>>, Fail) = if let Some(fl) = alone(&dna) {
						(dna, vec![], fl)
					} else if let Some(fl) = alone(&first_dna) {
						(first_dna, vec![], fl)
					} else if let Some(fl) = on_fresh_thread(|| {
						let _ = f(&prev, false);
						f(&first_dna, false).err()
					}) {
						(first_dna, vec![prev], fl)
					} else {
						let mut fl = last_fail.lock().unwrap().clone().unwrap_or_else(|| Fail::new("flaky", "failure did not reproduce"));
						fl.msg = format!("{} [depends on earlier calls in the same process: it does not reproduce from this case alone, nor after its immediate predecessor]", fl.msg);
						(first_dna, vec![prev], fl)
					};
					let mut g = found.lock().unwrap();
					if g.is_none() {
						*g = Some(chosen);
					}
				} else if let Err(TestError::Abort(r)) = r {
					eprintln!("proptest aborted: {}", r);
				}
			});
		}
	});
	let g = found.into_inner().unwrap();
	g.map(|(dna, history, fail)| {
		let mut params = if history.is_empty() { json!({ "dna": hex(&dna) }) } else { json!({ "dna": hex(&dna), "history": history.iter().map(|h| hex(h)).collect::<Vec<_>>() }) };
		if logging {
			params["logging"] = json!(true);
		}
		ctx.report(kind, &params, &fail)
	})
}

pub fn run_enum<F, P>(ctx: &Ctx, kind: &str, n: usize, params: P, f: F) -> Option<String>
where
	F: Fn(usize) -> Result<(), Fail> + Sync,
	P: Fn(usize) -> Value,
{
	// indices 3, 7, 11, ... run with every log call site live, the others with logging off (two passes: the level is global)
	set_logging(false);
	let r = run_enum_pass(ctx, kind, n, &params, &f, false);
	if r.is_some() || n < 4 {
		return r;
	}
	set_logging(true);
	let r = run_enum_pass(ctx, kind, n, &params, &f, true);
	set_logging(false);
	r
}

fn run_enum_pass<F, P>(ctx: &Ctx, kind: &str, n: usize, params: &P, f: &F, logging: bool) -> Option<String>
where
	F: Fn(usize) -> Result<(), Fail> + Sync,
	P: Fn(usize) -> Value,
{
	if ctx.stop.load(Ordering::Relaxed) || std::env::var("PV_ONLY_DNA").is_ok() {
		return None; // PV_ONLY_DNA: debugging aid, runs only the proptest-driven parts
	}
	// this pass owns the indices with (i % 4 == 3) == logging (when n < 4 there is only the logging-off pass, which owns all)
	let mine = |i: usize| n < 4 || (i % 4 == 3) == logging;
	let next = std::sync::atomic::AtomicUsize::new(0);
	let found: Mutex<Option<(usize, Option<usize>, Fail)>> = Mutex::new(None);
	let run = |i: usize| {
		crate::props::warmup(warm_key_enum(kind, i));
		f(i)
	};
	std::thread::scope(|s| {
		for _ in 0..WORKERS {
			s.spawn(|| {
				let mut prev: Option<usize> = None;
				loop {
					let i = next.fetch_add(1, Ordering::Relaxed);
					if i >= n || found.lock().unwrap().is_some() {
						break;
					}
					if !mine(i) {
						continue;
					}
					if let Err(fail) = run(i) {
						if ctx.is_known(&fail) {
							prev = Some(i);
							continue;
						}
						let mut g = found.lock().unwrap();
						if g.as_ref().map_or(true, |(j, _, _)| i < *j) {
							*g = Some((i, prev, fail));
						}
					}
					prev = Some(i);
				}
			});
		}
	});
	let g = found.into_inner().unwrap();
	g.map(|(i, prev, fail)| {
		ctx.stop.store(true, Ordering::Relaxed);
		// reproducible from a fresh thread? otherwise record the case that ran before it on its thread
		let mut p = params(i);
		if logging {
			if let Some(obj) = p.as_object_mut() {
				obj.insert("logging".into(), json!(true));
			}
		}
		let mut fail = fail;
		match on_fresh_thread(|| run(i).err()) {
			Some(fl) => fail = fl,
			None => {
				if let (Some(j), Some(obj)) = (prev, p.as_object_mut()) {
					obj.insert("history".into(), json!([j]));
				}
				let again = on_fresh_thread(|| {
					if let Some(j) = prev {
						let _ = run(j);
					}
					run(i).err()
				});
				match again {
					Some(fl) => fail = fl,
					None => fail.msg = format!("{} [depends on earlier calls in the same process: it does not reproduce from this case alone, nor after its immediate predecessor]", fail.msg),
				}
			}
		}
		ctx.report(kind, &p, &fail)
	})
}

/// Like run_enum, but the closure supplies the replay parameters of its failure itself.
pub fn par_first<F>(ctx: &Ctx, kind: &str, n: usize, f: F) -> Option<String>
where
	F: Fn(usize) -> Result<(), (Fail, Value)> + Sync,
{
	if ctx.stop.load(Ordering::Relaxed) {
		return None;
	}
	let next = std::sync::atomic::AtomicUsize::new(0);
	let found: Mutex<Option<(usize, Fail, Value)>> = Mutex::new(None);
	std::thread::scope(|s| {
		for _ in 0..WORKERS {
			s.spawn(|| loop {
				let i = next.fetch_add(1, Ordering::Relaxed);
				if i >= n || found.lock().unwrap().is_some() {
					break;
				}
				if let Err((fail, params)) = f(i) {
					if ctx.is_known(&fail) {
						continue;
					}
					let mut g = found.lock().unwrap();
					if g.as_ref().map_or(true, |(j, _, _)| i < *j) {
						*g = Some((i, fail, params));
					}
				}
			});
		}
	});
	let g = found.into_inner().unwrap();
	g.map(|(_, fail, params)| {
		ctx.stop.store(true, Ordering::Relaxed);
		ctx.report(kind, &params, &fail)
	})
}

// ---- bounded libFuzzer campaign (thorough tiers) ------------------------------------------------

/// Runs the cargo-fuzz target `target` for `secs` seconds on `workers` processes, starting from
/// `seeds`. Crash artefacts are re-run in-process through the same oracle before being reported.
/// Returns Some(replay path) on a confirmed violation. Tooling problems / OOM / timeouts => exit 2.
pub fn run_fuzz(ctx: &Ctx, target: &str, secs: u64, workers: usize, max_len: usize, seeds: &[Vec<u8>]) -> Option<String> {
	use std::process::Command;
	if ctx.stop.load(Ordering::Relaxed) {
		return None;
	}
	let engine = format!("{}/engine", ctx.root);
	let st = Command::new("cargo")
		.args(["+nightly", "fuzz", "build", "--fuzz-dir", "fuzz", "-s", "none", target])
		.current_dir(&engine)
		.env("CARGO_NET_OFFLINE", "true")
		.output();
	match st {
		Ok(o) if o.status.success() => {}
		Ok(o) => {
			eprintln!("fuzz build failed: {}", String::from_utf8_lossy(&o.stderr).lines().rev().take(15).collect::<Vec<_>>().join("\n"));
			std::process::exit(2);
		}
		Err(e) => {
			eprintln!("cannot run cargo fuzz: {}", e);
			std::process::exit(2);
		}
	}
	let bin = format!("{}/fuzz/target/x86_64-unknown-linux-gnu/release/{}", engine, target);
	let work = format!("{}/work/fuzz/{}-{}", ctx.root, target, std::process::id());
	let _ = std::fs::remove_dir_all(&work);
	let corpus = format!("{}/corpus", work);
	let arts = format!("{}/artifacts", work);
	std::fs::create_dir_all(&corpus).expect("corpus dir");
	std::fs::create_dir_all(&arts).expect("artifact dir");
	for (i, s) in seeds.iter().enumerate() {
		let _ = std::fs::write(format!("{}/seed{:03}", corpus, i), s);
	}
	let out = Command::new(&bin)
		.arg(&corpus)
		.args([
			format!("-max_total_time={}", secs),
			format!("-seed={}", (ctx.seed % 0xFFFF_FFF0) + 1),
			"-len_control=0".into(),
			format!("-max_len={}", max_len),
			"-rss_limit_mb=0".into(),
			"-malloc_limit_mb=8192".into(),
			"-timeout=60".into(),
			format!("-artifact_prefix={}/", arts),
			format!("-jobs={}", workers),
			format!("-workers={}", workers),
			"-print_final_stats=1".into(),
		])
		.current_dir(&work)
		.env("PV_ROOT", &ctx.root)
		.output();
	if let Err(e) = out {
		eprintln!("cannot run fuzz target: {}", e);
		std::process::exit(2);
	}
	// stats from the per-job logs
	let mut execs: u64 = 0;
	let mut logs = 0;
	if let Ok(rd) = std::fs::read_dir(&work) {
		for e in rd.flatten() {
			let p = e.path();
			if p.extension().map_or(false, |x| x == "log") {
				logs += 1;
				if let Ok(t) = std::fs::read_to_string(&p) {
					for l in t.lines() {
						if let Some(n) = l.strip_prefix("stat::number_of_executed_units:") {
							execs += n.trim().parse::<u64>().unwrap_or(0);
						}
					}
				}
			}
		}
	}
	let corpus_n = std::fs::read_dir(&corpus).map(|d| d.count()).unwrap_or(0);
	ctx.evals(execs);
	ctx.put(&format!("libfuzzer:{}:{}seeds", target, seeds.len()), json!({"executions": execs, "jobs": logs, "seconds": secs, "seed_inputs": seeds.len(), "final_corpus": corpus_n, "sanitizer": "none (peppi has no unsafe code; speed preferred)"}));
	let mut found = None;
	let mut inconclusive = false;
	if let Ok(rd) = std::fs::read_dir(&arts) {
		let mut files: Vec<_> = rd.flatten().map(|e| e.path()).collect();
		files.sort();
		for p in files {
			let name = p.file_name().unwrap().to_string_lossy().to_string();
			let data = std::fs::read(&p).unwrap_or_default();
			if name.starts_with("crash-") {
				match crate::props::fuzz_one(target, &data) {
					Err(f) => {
						if !ctx.is_known(&f) && found.is_none() {
							found = Some(ctx.report("fuzz", &json!({"target": target, "input": hex(&data)}), &f.with_file("fuzz_input", &data)));
						}
					}
					Ok(()) => {
						eprintln!("fuzz artefact {} does not reproduce in-process", name);
						inconclusive = true;
					}
				}
			} else {
				eprintln!("libFuzzer artefact {} (oom/timeout/leak): inconclusive", name);
				inconclusive = true;
			}
		}
	}
	if found.is_none() {
		let _ = std::fs::remove_dir_all(&work);
		if inconclusive {
			std::process::exit(2);
		}
	} else {
		ctx.stop.store(true, Ordering::Relaxed);
	}
	found
}

pub fn random_seeds(seed: u64, n: usize, len: usize) -> Vec<Vec<u8>> {
	(0..n)
		.map(|i| {
			let mut b = vec![0u8; if i == 0 { 64 } else { len }];
			if i > 0 {
				crate::gen::SplitMix(seed ^ (i as u64 * 0x9E37)).fill(&mut b);
			}
			b
		})
		.collect()
}
