use pv::{props, rt, spec, watch};

use rt::{Ctx, Tier};

fn usage() -> ! {
	eprintln!("usage: pv check <Cxx> [--tier quick|thorough] | pv replay <Cxx> <replay.json>");
	std::process::exit(2)
}

fn main() {
	let args: Vec<String> = std::env::args().collect();
	if args.len() < 3 {
		usage();
	}
	let root = std::env::var("PV_ROOT").unwrap_or_else(|_| "/verif".into());
	let seed: u64 = std::env::var("VERIF_SEED").ok().and_then(|s| s.parse().ok()).unwrap_or(20261003);
	rt::install_panic_hook();
	// machinery self-test outside catch_unwind: a panic here is exit 2 (101 mapped by ./check)
	spec::self_test();
	match args[1].as_str() {
		"check" => {
			let prop = args[2].clone();
			let mut tier = match std::env::var("VERIF_TIER").as_deref() {
				Ok("thorough") => Tier::Thorough,
				_ => Tier::Quick,
			};
			if let Some(i) = args.iter().position(|a| a == "--tier") {
				tier = match args.get(i + 1).map(|s| s.as_str()) {
					Some("thorough") => Tier::Thorough,
					Some("quick") => Tier::Quick,
					_ => usage(),
				};
			}
			// global watchdog: a check that cannot finish is inconclusive (exit 2), never a violation
			let limit = std::env::var("PV_WATCHDOG_S").ok().and_then(|s| s.parse().ok()).unwrap_or(match tier {
				Tier::Quick => 1500u64,
				Tier::Thorough => 6 * 3600,
			});
			std::thread::spawn(move || {
				std::thread::sleep(std::time::Duration::from_secs(limit));
				eprintln!("watchdog: no result after {} s: inconclusive", limit);
				std::process::exit(2);
			});
			if matches!(tier, Tier::Thorough) {
				rt::DEBUG_BUDGET.store(6000, std::sync::atomic::Ordering::Relaxed);
			}
			let ctx = Ctx::new(&prop, tier, seed, props::level(&prop), &root);
			let r = std::panic::catch_unwind(std::panic::AssertUnwindSafe(|| {
				let v = props::regressions(&ctx);
				v + props::run(&ctx)
			}));
			match r {
				Ok(v) => {
					ctx.write_evidence(v);
					for (text, n) in ctx.known_hits.lock().unwrap().iter() {
						println!("KNOWN-FINDING: property={} {} (hit {} times)", prop, text, n);
					}
					let ev = ctx.evaluations.load(std::sync::atomic::Ordering::Relaxed);
					let nt = ctx.distinct.lock().unwrap().len();
					println!(
						"{} {:?}: {} evaluations, {} distinct non-trivial, {} violation(s), {:.1}s",
						prop,
						tier,
						ev,
						nt,
						v,
						ctx.started.elapsed().as_secs_f64()
					);
					std::process::exit(if v > 0 { 1 } else { 0 });
				}
				Err(_) => {
					eprintln!("machinery failure (panic outside a guarded peppi call); re-run with PV_SHOW_PANICS=1");
					std::process::exit(2);
				}
			}
		}
		"isolated-read" => watch::isolated_read_main(&args[2..]),
		"replay" => {
			if args.len() < 4 {
				usage();
			}
			let prop = args[2].clone();
			let text = std::fs::read_to_string(&args[3]).unwrap_or_else(|e| {
				eprintln!("cannot read {}: {}", args[3], e);
				std::process::exit(2)
			});
			let v: serde_json::Value = serde_json::from_str(&text).expect("replay file is not JSON");
			let tier = Tier::Quick;
			let mut ctx = Ctx::new(&prop, tier, v["seed"].as_u64().unwrap_or(seed), props::level(&prop), &root);
			ctx.replay_mode = true;
			let kind = v["kind"].as_str().unwrap_or("dna").to_string();
			match props::replay(&ctx, &kind, &v["params"]) {
				Ok(()) => {
					println!("replay: property {} holds on {}", prop, args[3]);
					std::process::exit(0);
				}
				Err(f) => {
					println!("VIOLATION property={} replay={}", prop, args[3]);
					println!("  {}: {}", f.sig, f.msg);
					std::process::exit(1);
				}
			}
		}
		_ => usage(),
	}
}
