//! pv: property-verification engine for hohav/peppi (see /verif/DESIGN.md).
#![allow(dead_code)]

pub mod access;
pub mod arrowfmt;
pub mod cmp;
pub mod gen;
pub mod model;
pub mod props;
pub mod readers;
pub mod rt;
pub mod selftest;
pub mod spec;
pub mod tarfmt;
pub mod watch;
