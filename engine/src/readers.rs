//! Readers the harness owns: short-read schedules, fault injection, call counting.

use std::io::{self, Read, Seek, SeekFrom};

use crate::gen::SplitMix;

#[derive(Clone, Debug)]
pub enum Schedule {
	Full,
	Fixed(usize),
	/// random short reads 1..=max
	Random(u64, usize),
	/// first read delivers at most `n` bytes in total (two-piece split), then unrestricted
	Split(usize),
}

impl Schedule {
	pub fn describe(&self) -> String {
		match self {
			Schedule::Full => "full".into(),
			Schedule::Fixed(n) => format!("fixed({})", n),
			Schedule::Random(s, m) => format!("random(seed={},max={})", s, m),
			Schedule::Split(n) => format!("split({})", n),
		}
	}
}

pub struct SchedReader<'a> {
	pub data: &'a [u8],
	pub pos: usize,
	sched: Schedule,
	rng: SplitMix,
	pub reads: usize,
	pub seeks: usize,
	pub short_reads: usize,
	/// fail the k-th read (0-based) with an I/O error
	pub fail_read_at: Option<usize>,
	pub fail_seek_at: Option<usize>,
	/// inject this many `Interrupted` results before each of the first `interrupt_calls` reads
	pub interrupts: usize,
	pub interrupt_calls: usize,
	pending_interrupts: usize,
	pub faults_fired: usize,
	/// largest position ever handed out
	pub high_water: usize,
	/// read-call budget: beyond it every read fails and `over_budget` is set (no-progress detector)
	pub budget: usize,
	pub over_budget: bool,
}

impl<'a> SchedReader<'a> {
	pub fn new(data: &'a [u8], sched: Schedule) -> Self {
		let seed = match &sched {
			Schedule::Random(s, _) => *s,
			_ => 0,
		};
		SchedReader {
			data,
			pos: 0,
			sched,
			rng: SplitMix(seed),
			reads: 0,
			seeks: 0,
			short_reads: 0,
			fail_read_at: None,
			fail_seek_at: None,
			interrupts: 0,
			interrupt_calls: 0,
			pending_interrupts: 0,
			faults_fired: 0,
			high_water: 0,
			budget: 16 * data.len() + 4096,
			over_budget: false,
		}
	}
}

impl<'a> Read for SchedReader<'a> {
	fn read(&mut self, buf: &mut [u8]) -> io::Result<usize> {
		if self.reads < self.interrupt_calls {
			if self.pending_interrupts < self.interrupts {
				self.pending_interrupts += 1;
				return Err(io::Error::new(io::ErrorKind::Interrupted, "injected EINTR"));
			}
			self.pending_interrupts = 0;
		}
		let k = self.reads;
		self.reads += 1;
		if self.reads > self.budget {
			self.over_budget = true;
			return Err(io::Error::new(io::ErrorKind::Other, "read-call budget exceeded (no progress)"));
		}
		if self.fail_read_at == Some(k) {
			self.faults_fired += 1;
			return Err(io::Error::new(io::ErrorKind::Other, "injected read fault"));
		}
		let remaining = self.data.len().saturating_sub(self.pos);
		let mut n = buf.len().min(remaining);
		if n > 0 {
			let cap = match &self.sched {
				Schedule::Full => n,
				Schedule::Fixed(c) => *c,
				Schedule::Random(_, max) => 1 + self.rng.below(*max),
				Schedule::Split(first) => {
					if self.pos < *first {
						*first - self.pos
					} else {
						n
					}
				}
			};
			if cap.max(1) < n {
				n = cap.max(1);
				self.short_reads += 1;
			}
		}
		if n > 0 {
			buf[..n].copy_from_slice(&self.data[self.pos..self.pos + n]);
			self.pos += n;
		}
		self.high_water = self.high_water.max(self.pos);
		Ok(n)
	}
}

impl<'a> Seek for SchedReader<'a> {
	fn seek(&mut self, to: SeekFrom) -> io::Result<u64> {
		let k = self.seeks;
		self.seeks += 1;
		if self.fail_seek_at == Some(k) {
			self.faults_fired += 1;
			return Err(io::Error::new(io::ErrorKind::Other, "injected seek fault"));
		}
		let new = match to {
			SeekFrom::Start(p) => p as i128,
			SeekFrom::Current(d) => self.pos as i128 + d as i128,
			SeekFrom::End(d) => self.data.len() as i128 + d as i128,
		};
		if new < 0 {
			return Err(io::Error::new(io::ErrorKind::InvalidInput, "seek before start"));
		}
		self.pos = new.min(u64::MAX as i128 / 2) as usize;
		Ok(self.pos as u64)
	}
}

pub fn gen_schedule(d: &mut crate::gen::Dna, file_len: usize) -> Schedule {
	match d.u8() {
		0..=29 => Schedule::Full,
		30..=59 => Schedule::Fixed(1),
		60..=79 => Schedule::Fixed(2),
		80..=99 => Schedule::Fixed(3),
		100..=119 => Schedule::Fixed(7),
		120..=134 => Schedule::Fixed(64),
		135..=144 => Schedule::Fixed(4096),
		145..=199 => Schedule::Random(d.u32() as u64 + 1, [2usize, 5, 16, 100, 700][d.below(5)]),
		_ => Schedule::Split(d.below(file_len.max(1))),
	}
}

/// A replay that is too large to materialise: `head` (file header, payload table, Game Start, frames),
/// then `count` identical filler events (one declared unknown code with a 65 535-byte payload), then `tail`
/// (Game End, metadata, closing brace). Implements `Read + Seek` by computing which region a position is in.
pub struct VirtualReplay {
	pub head: Vec<u8>,
	pub code: u8,
	pub count: u64,
	pub tail: Vec<u8>,
	pub pos: u64,
	pub reads: u64,
}

impl VirtualReplay {
	pub const FILLER: u64 = 65536; // command byte + 65 535 payload bytes
	pub fn len(&self) -> u64 {
		self.head.len() as u64 + self.count * Self::FILLER + self.tail.len() as u64
	}
	/// the model's replay with `count` filler events inserted before its Game End (raw length adjusted)
	pub fn new(m: &crate::model::ModelGame, count: u64) -> Self {
		use crate::spec;
		let mut raw = m.raw();
		let code = (0x40u8..=0xF0).find(|c| !spec::KNOWN_CODES.contains(c) && !raw.table.iter().any(|(k, _)| k == c)).unwrap();
		raw.table.push((code, 65535));
		let at = raw.events.iter().position(|e| e.code == spec::EV_GAME_END).unwrap_or(raw.events.len());
		let body = raw.raw_body().len() as u64 + count * Self::FILLER;
		assert!(body <= u32::MAX as u64, "raw element must fit the u32 length field");
		raw.raw_len = Some(body as u32);
		let bytes = raw.serialize();
		let split = raw.event_offsets()[at];
		VirtualReplay { head: bytes[..split].to_vec(), code, count, tail: bytes[split..].to_vec(), pos: 0, reads: 0 }
	}
}

impl Read for VirtualReplay {
	fn read(&mut self, buf: &mut [u8]) -> io::Result<usize> {
		self.reads += 1;
		let h = self.head.len() as u64;
		let mid = self.count * Self::FILLER;
		let mut done = 0usize;
		while done < buf.len() && self.pos < self.len() {
			let want = buf.len() - done;
			if self.pos < h {
				let n = want.min((h - self.pos) as usize);
				buf[done..done + n].copy_from_slice(&self.head[self.pos as usize..self.pos as usize + n]);
				done += n;
				self.pos += n as u64;
			} else if self.pos < h + mid {
				let off = (self.pos - h) % Self::FILLER;
				let n = want.min((Self::FILLER - off) as usize);
				buf[done..done + n].fill(0xA7);
				if off == 0 {
					buf[done] = self.code;
				}
				done += n;
				self.pos += n as u64;
			} else {
				let t = (self.pos - h - mid) as usize;
				let n = want.min(self.tail.len() - t);
				buf[done..done + n].copy_from_slice(&self.tail[t..t + n]);
				done += n;
				self.pos += n as u64;
			}
		}
		Ok(done)
	}
}

impl Seek for VirtualReplay {
	fn seek(&mut self, to: SeekFrom) -> io::Result<u64> {
		let new = match to {
			SeekFrom::Start(p) => p as i128,
			SeekFrom::Current(d) => self.pos as i128 + d as i128,
			SeekFrom::End(d) => self.len() as i128 + d as i128,
		};
		if new < 0 {
			return Err(io::Error::new(io::ErrorKind::InvalidInput, "seek before start"));
		}
		self.pos = new as u64;
		Ok(self.pos)
	}
}
