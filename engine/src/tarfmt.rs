//! Minimal independent tar (ustar/GNU) walker and entry writer, and an order-preserving JSON reader.

#[derive(Clone, Debug)]
pub struct TarEntry {
	pub name: String,
	pub header_off: usize,
	pub data_off: usize,
	pub size: usize,
	pub typeflag: u8,
	pub magic: [u8; 8],
	pub cksum_ok: bool,
}

fn octal(field: &[u8]) -> Option<usize> {
	let s: Vec<u8> = field.iter().copied().take_while(|b| *b != 0 && *b != b' ').collect();
	let s: Vec<u8> = s.into_iter().skip_while(|b| *b == b' ').collect();
	if s.is_empty() {
		return Some(0);
	}
	usize::from_str_radix(std::str::from_utf8(&s).ok()?, 8).ok()
}

pub fn cksum(header: &[u8]) -> usize {
	header.iter().enumerate().map(|(i, b)| if (148..156).contains(&i) { 32usize } else { *b as usize }).sum()
}

/// Walks the archive. Returns entries and the offset where the end-of-archive marker starts.
pub fn walk_tar(b: &[u8]) -> Result<(Vec<TarEntry>, usize), String> {
	let mut off = 0;
	let mut out = Vec::new();
	loop {
		if off + 512 > b.len() {
			return Err(format!("archive ends at {} without end marker", off));
		}
		let h = &b[off..off + 512];
		if h.iter().all(|x| *x == 0) {
			return Ok((out, off));
		}
		let name_end = h[..100].iter().position(|x| *x == 0).unwrap_or(100);
		let name = String::from_utf8_lossy(&h[..name_end]).to_string();
		let size = octal(&h[124..136]).ok_or("bad size field")?;
		let stored = octal(&h[148..156]).ok_or("bad checksum field")?;
		let mut magic = [0u8; 8];
		magic.copy_from_slice(&h[257..265]);
		let e = TarEntry { name, header_off: off, data_off: off + 512, size, typeflag: h[156], magic, cksum_ok: stored == cksum(h) };
		let next = off + 512 + (size + 511) / 512 * 512;
		if off + 512 + size > b.len() {
			return Err(format!("entry {} data exceeds archive", e.name));
		}
		out.push(e);
		off = next;
	}
}

pub fn entry_data<'a>(b: &'a [u8], e: &TarEntry) -> &'a [u8] {
	&b[e.data_off..e.data_off + e.size]
}

/// header + padded data of a regular-file entry (GNU magic, like the writer's)
pub fn make_entry(name: &[u8], data: &[u8]) -> Vec<u8> {
	make_entry_typed(name, data, b'0')
}

pub fn make_entry_typed(name: &[u8], data: &[u8], typeflag: u8) -> Vec<u8> {
	// paths longer than the 100-byte header field: GNU long-name record ('L' member named ././@LongLink whose
	// data is the full path + NUL) followed by the member itself with the path cut to 100 bytes
	if name.len() > 100 && typeflag != b'L' {
		let mut full = name.to_vec();
		full.push(0);
		let mut out = make_entry_typed(b"././@LongLink", &full, b'L');
		out.extend_from_slice(&make_entry_typed(&name[..100], data, typeflag));
		return out;
	}
	let mut h = vec![0u8; 512];
	h[..name.len()].copy_from_slice(name);
	h[100..108].copy_from_slice(b"0000644\0");
	h[108..116].copy_from_slice(b"0000000\0");
	h[116..124].copy_from_slice(b"0000000\0");
	h[124..136].copy_from_slice(format!("{:011o}\0", data.len()).as_bytes());
	h[136..148].copy_from_slice(b"00000000000\0");
	h[156] = typeflag;
	h[257..265].copy_from_slice(b"ustar  \0");
	let c = cksum(&h);
	h[148..156].copy_from_slice(format!("{:06o}\0 ", c).as_bytes());
	let mut out = h;
	out.extend_from_slice(data);
	while out.len() % 512 != 0 {
		out.push(0);
	}
	out
}

/// Rebuilds an archive from entries (name, data), each with a fresh header, plus the end marker.
pub fn rebuild(entries: &[(Vec<u8>, Vec<u8>)]) -> Vec<u8> {
	let mut out = Vec::new();
	for (n, d) in entries {
		// a name ending in '/' is written as a directory member (no data)
		if n.ends_with(b"/") && d.is_empty() {
			out.extend_from_slice(&make_entry_typed(n, d, b'5'));
		} else {
			out.extend_from_slice(&make_entry(n, d));
		}
	}
	out.extend_from_slice(&[0u8; 1024]);
	out
}

// ---- order-preserving JSON reader ----------------------------------------------------------------

#[derive(Clone, Debug, PartialEq)]
pub enum J {
	Null,
	Bool(bool),
	Num(String),
	Str(String),
	Arr(Vec<J>),
	Obj(Vec<(String, J)>),
}

pub fn parse_json(b: &[u8]) -> Result<J, String> {
	let s = std::str::from_utf8(b).map_err(|e| e.to_string())?;
	let cs: Vec<char> = s.chars().collect();
	let mut i = 0;
	let v = pj(&cs, &mut i, 0)?;
	ws(&cs, &mut i);
	if i != cs.len() {
		return Err(format!("trailing characters at {}", i));
	}
	Ok(v)
}

fn ws(c: &[char], i: &mut usize) {
	while *i < c.len() && matches!(c[*i], ' ' | '\t' | '\n' | '\r') {
		*i += 1;
	}
}

fn pj(c: &[char], i: &mut usize, depth: usize) -> Result<J, String> {
	if depth > 300 {
		return Err("too deep".into());
	}
	ws(c, i);
	match c.get(*i) {
		None => Err("unexpected end".into()),
		Some('{') => {
			*i += 1;
			let mut o = Vec::new();
			ws(c, i);
			if c.get(*i) == Some(&'}') {
				*i += 1;
				return Ok(J::Obj(o));
			}
			loop {
				ws(c, i);
				let k = match pj(c, i, depth + 1)? {
					J::Str(s) => s,
					_ => return Err("object key is not a string".into()),
				};
				ws(c, i);
				if c.get(*i) != Some(&':') {
					return Err("expected ':'".into());
				}
				*i += 1;
				let v = pj(c, i, depth + 1)?;
				o.push((k, v));
				ws(c, i);
				match c.get(*i) {
					Some(',') => *i += 1,
					Some('}') => {
						*i += 1;
						return Ok(J::Obj(o));
					}
					_ => return Err("expected ',' or '}'".into()),
				}
			}
		}
		Some('[') => {
			*i += 1;
			let mut a = Vec::new();
			ws(c, i);
			if c.get(*i) == Some(&']') {
				*i += 1;
				return Ok(J::Arr(a));
			}
			loop {
				a.push(pj(c, i, depth + 1)?);
				ws(c, i);
				match c.get(*i) {
					Some(',') => *i += 1,
					Some(']') => {
						*i += 1;
						return Ok(J::Arr(a));
					}
					_ => return Err("expected ',' or ']'".into()),
				}
			}
		}
		Some('"') => {
			*i += 1;
			let mut s = String::new();
			loop {
				match c.get(*i) {
					None => return Err("unterminated string".into()),
					Some('"') => {
						*i += 1;
						return Ok(J::Str(s));
					}
					Some('\\') => {
						*i += 1;
						match c.get(*i) {
							Some('"') => s.push('"'),
							Some('\\') => s.push('\\'),
							Some('/') => s.push('/'),
							Some('b') => s.push('\u{8}'),
							Some('f') => s.push('\u{c}'),
							Some('n') => s.push('\n'),
							Some('r') => s.push('\r'),
							Some('t') => s.push('\t'),
							Some('u') => {
								let hex = |i: usize| -> Result<u32, String> {
									let h: String = c.get(i..i + 4).ok_or("short \\u")?.iter().collect();
									u32::from_str_radix(&h, 16).map_err(|e| e.to_string())
								};
								let mut cp = hex(*i + 1)?;
								*i += 4;
								if (0xD800..0xDC00).contains(&cp) {
									if c.get(*i + 1) == Some(&'\\') && c.get(*i + 2) == Some(&'u') {
										let lo = hex(*i + 3)?;
										cp = 0x10000 + ((cp - 0xD800) << 10) + (lo - 0xDC00);
										*i += 6;
									} else {
										return Err("lone surrogate".into());
									}
								}
								s.push(char::from_u32(cp).ok_or("bad code point")?);
							}
							_ => return Err("bad escape".into()),
						}
						*i += 1;
					}
					Some(ch) => {
						s.push(*ch);
						*i += 1;
					}
				}
			}
		}
		Some(ch) if *ch == '-' || ch.is_ascii_digit() => {
			let st = *i;
			while *i < c.len() && (c[*i].is_ascii_digit() || matches!(c[*i], '-' | '+' | '.' | 'e' | 'E')) {
				*i += 1;
			}
			Ok(J::Num(c[st..*i].iter().collect()))
		}
		Some(_) => {
			for (lit, v) in [("null", J::Null), ("true", J::Bool(true)), ("false", J::Bool(false))] {
				let l: Vec<char> = lit.chars().collect();
				if c.len() >= *i + l.len() && c[*i..*i + l.len()] == l[..] {
					*i += l.len();
					return Ok(v);
				}
			}
			Err(format!("unexpected character at {}", i))
		}
	}
}

pub fn meta_eq_j(model: &[(String, crate::model::Meta)], got: &J) -> Result<(), String> {
	use crate::model::Meta;
	let o = match got {
		J::Obj(o) => o,
		_ => return Err("not an object".into()),
	};
	if o.len() != model.len() {
		return Err(format!("map size {} vs {}", model.len(), o.len()));
	}
	for ((k, v), (gk, gv)) in model.iter().zip(o) {
		if k != gk {
			return Err(format!("key order/name: expected {:?}, got {:?}", k, gk));
		}
		match (v, gv) {
			(Meta::Str(s), J::Str(g)) if s == g => {}
			(Meta::Int(i), J::Num(n)) if n.parse::<i64>().ok() == Some(*i as i64) => {}
			(Meta::Map(m), g @ J::Obj(_)) => meta_eq_j(m, g).map_err(|e| format!("{:?}.{}", k, e))?,
			_ => return Err(format!("value at key {:?}: expected {:?}, got {:?}", k, v, gv)),
		}
	}
	Ok(())
}
