//! Observation of failures that cannot be caught in-process: a thread parked in a sleep (via
//! /proc/self/task/<tid>), and aborts such as stack overflow (child process isolation).

use std::process::{Command, Stdio};

pub fn thread_self_tid() -> u64 {
	std::fs::read_link("/proc/thread-self")
		.ok()
		.and_then(|p| p.file_name().map(|f| f.to_string_lossy().to_string()))
		.and_then(|s| s.parse().ok())
		.unwrap_or(0)
}

#[derive(Clone, Debug, PartialEq)]
pub struct TaskSample {
	pub state: char,
	pub cpu_ticks: u64,
	pub syscall: i64,
}

pub fn sample_task(tid: u64) -> Option<TaskSample> {
	let stat = std::fs::read_to_string(format!("/proc/self/task/{}/stat", tid)).ok()?;
	// fields after the ")" that closes comm
	let rest = &stat[stat.rfind(')')? + 2..];
	let f: Vec<&str> = rest.split_whitespace().collect();
	let state = f.first()?.chars().next()?;
	let utime: u64 = f.get(11)?.parse().ok()?;
	let stime: u64 = f.get(12)?.parse().ok()?;
	let sc = std::fs::read_to_string(format!("/proc/self/task/{}/syscall", tid)).unwrap_or_default();
	let syscall = sc.split_whitespace().next().and_then(|s| s.parse::<i64>().ok()).unwrap_or(-2);
	Some(TaskSample { state, cpu_ticks: utime + stime, syscall })
}

/// x86-64: 35 = nanosleep, 230 = clock_nanosleep
pub fn is_sleep_syscall(nr: i64) -> bool {
	nr == 35 || nr == 230
}

/// Three samples 300 ms apart: sleeping state, a sleep syscall, and no CPU time consumed at all.
pub fn provably_sleeping(tid: u64) -> bool {
	let mut last: Option<TaskSample> = None;
	for _ in 0..3 {
		let s = match sample_task(tid) {
			Some(s) => s,
			None => return false,
		};
		if s.state != 'S' || !is_sleep_syscall(s.syscall) {
			return false;
		}
		if let Some(l) = &last {
			if l.cpu_ticks != s.cpu_ticks {
				return false;
			}
		}
		last = Some(s);
		std::thread::sleep(std::time::Duration::from_millis(300));
	}
	true
}

#[derive(Debug, PartialEq)]
pub enum ChildResult {
	/// child returned Ok or Err (exit code 0 / 3)
	Returned(bool),
	Panicked(String),
	/// killed by a signal (stack overflow -> SIGABRT/SIGSEGV)
	Signal(i32, String),
	TimedOut,
	Other(String),
}

/// Runs `pv isolated-read <file> <skip> <hash> <mode>` in a child process with a watchdog.
pub fn isolated_read(path: &str, skip: bool, hash: bool, mode: &str, timeout_s: u64) -> ChildResult {
	use std::os::unix::process::ExitStatusExt;
	let exe = std::env::current_exe().expect("current_exe");
	let mut child = match Command::new(exe)
		.args(["isolated-read", path, if skip { "1" } else { "0" }, if hash { "1" } else { "0" }, mode])
		.stdin(Stdio::null())
		.stdout(Stdio::piped())
		.stderr(Stdio::piped())
		.spawn()
	{
		Ok(c) => c,
		Err(e) => return ChildResult::Other(e.to_string()),
	};
	let start = std::time::Instant::now();
	loop {
		match child.try_wait() {
			Ok(Some(st)) => {
				let mut err = String::new();
				if let Some(mut e) = child.stderr.take() {
					use std::io::Read;
					let _ = e.read_to_string(&mut err);
				}
				let tail: String = err.lines().rev().take(3).collect::<Vec<_>>().join(" | ");
				if let Some(sig) = st.signal() {
					return ChildResult::Signal(sig, tail);
				}
				return match st.code() {
					Some(0) => ChildResult::Returned(true),
					Some(3) => ChildResult::Returned(false),
					Some(4) => ChildResult::Panicked(tail),
					c => ChildResult::Other(format!("exit {:?}: {}", c, tail)),
				};
			}
			Ok(None) => {
				if start.elapsed().as_secs() > timeout_s {
					let _ = child.kill();
					let _ = child.wait();
					return ChildResult::TimedOut;
				}
				std::thread::sleep(std::time::Duration::from_millis(5));
			}
			Err(e) => return ChildResult::Other(e.to_string()),
		}
	}
}

/// Body of the child: exit 0 = Ok, 3 = Err, 4 = panic (message on stderr); a stack overflow kills it.
pub fn isolated_read_main(args: &[String]) -> ! {
	let bytes = std::fs::read(&args[0]).unwrap_or_else(|_| std::process::exit(5));
	let skip = args.get(1).map_or(false, |s| s == "1");
	let hash = args.get(2).map_or(false, |s| s == "1");
	let mode = args.get(3).map(|s| s.as_str()).unwrap_or("slp");
	let out = match mode {
		"slpp" => crate::rt::slpp_read(&bytes, skip).kind(),
		"incremental" => crate::props::c06::incremental_outcome(&bytes),
		_ => crate::rt::slp_read(&bytes, skip, hash).kind(),
	};
	std::process::exit(match out {
		"ok" => 0,
		"err" => 3,
		_ => {
			eprintln!("panic in isolated read");
			4
		}
	})
}
