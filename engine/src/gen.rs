//! The one generator: choice stream ("DNA" bytes) -> ModelGame and friends.
//! Every decision maps a few bytes monotonically onto its alternatives, zero = simplest, and an
//! exhausted stream yields zeros, so proptest's byte-vector shrinking shrinks the model.

use crate::model::*;
use crate::spec::{self, gs, Kind, Ty};

pub struct Dna<'a> {
	data: &'a [u8],
	pos: usize,
}

impl<'a> Dna<'a> {
	pub fn new(data: &'a [u8]) -> Self {
		Dna { data, pos: 0 }
	}
	pub fn u8(&mut self) -> u8 {
		let b = self.data.get(self.pos).copied().unwrap_or(0);
		self.pos += 1;
		b
	}
	pub fn u16(&mut self) -> u16 {
		((self.u8() as u16) << 8) | self.u8() as u16
	}
	pub fn u32(&mut self) -> u32 {
		((self.u16() as u32) << 16) | self.u16() as u32
	}
	pub fn u64(&mut self) -> u64 {
		((self.u32() as u64) << 32) | self.u32() as u64
	}
	/// uniform-ish in 0..n, monotone in the stream value, 0 -> 0
	pub fn below(&mut self, n: usize) -> usize {
		if n <= 1 {
			return 0;
		}
		if n <= 256 {
			(self.u8() as usize * n) >> 8
		} else {
			((self.u32() as u64 * n as u64) >> 32) as usize
		}
	}
	/// true with probability p/256; zero byte -> false
	pub fn chance(&mut self, p: u32) -> bool {
		(self.u8() as u32) + p >= 256
	}
	pub fn exhausted(&self) -> bool {
		self.pos >= self.data.len()
	}
	pub fn pos(&self) -> usize {
		self.pos
	}
}

#[derive(Clone)]
pub struct SplitMix(pub u64);
impl SplitMix {
	pub fn next(&mut self) -> u64 {
		self.0 = self.0.wrapping_add(0x9E3779B97F4A7C15);
		let mut z = self.0;
		z = (z ^ (z >> 30)).wrapping_mul(0xBF58476D1CE4E5B9);
		z = (z ^ (z >> 27)).wrapping_mul(0x94D049BB133111EB);
		z ^ (z >> 31)
	}
	pub fn below(&mut self, n: usize) -> usize {
		((self.next() >> 32) as usize * n) >> 32
	}
	pub fn fill(&mut self, buf: &mut [u8]) {
		for c in buf.chunks_mut(8) {
			let x = self.next().to_le_bytes();
			c.copy_from_slice(&x[..c.len()]);
		}
	}
}

#[derive(Clone, Copy, Debug, PartialEq, Eq)]
pub enum Pattern {
	Zero,
	Random,
	Special,
	Ones,
	Distinct,
}

impl Pattern {
	pub fn from_byte(b: u8) -> Pattern {
		match b {
			0 => Pattern::Zero,
			1..=140 => Pattern::Random,
			141..=200 => Pattern::Special,
			201..=215 => Pattern::Ones,
			_ => Pattern::Distinct,
		}
	}
}

fn special(ty: Ty, rng: &mut SplitMix) -> u32 {
	let pick = rng.below(10);
	match ty {
		Ty::F32 => match pick {
			0 => 0,
			1 => 0x8000_0000,                                 // -0.0
			2 => 0x7FC0_0000 | (rng.next() as u32 & 0x3F_FFFF), // quiet NaN + payload
			3 => 0x7F80_0001 | (rng.next() as u32 & 0x3F_FFFF), // signalling NaN + payload
			4 => 0xFFC0_0000 | (rng.next() as u32 & 0x3F_FFFF), // negative NaN
			5 => 0x7F80_0000,                                 // +inf
			6 => 0xFF80_0000,
			7 => 0x0000_0001, // denormal
			8 => 0x3F80_0000,
			_ => rng.next() as u32,
		},
		_ => match pick {
			0 => 0,
			1 => u32::MAX,
			2 => 0x8000_0000 >> (32 - 8 * ty.size() as u32), // sign bit of the type
			3 => 0x7FFF_FFFF >> (32 - 8 * ty.size() as u32),
			4 => 1,
			_ => rng.next() as u32,
		},
	}
}

/// Payload of a frame-level event *after* its header (frame id [+ port + flag]), for layout `v`,
/// `extra` trailing bytes appended.
pub fn payload(kind: Kind, v: (u8, u8), seed: u64, pat: Pattern, extra: usize) -> Vec<u8> {
	let h = kind.header();
	let size = spec::event_size(kind, v);
	let mut full = vec![0u8; size + extra];
	let mut rng = SplitMix(seed ^ ((kind.code() as u64) << 56));
	match pat {
		Pattern::Zero => {}
		Pattern::Random => rng.fill(&mut full[h..]),
		Pattern::Ones => full[h..].iter_mut().for_each(|b| *b = 0xFF),
		Pattern::Special | Pattern::Distinct => {
			let base = rng.next() as u32;
			for (k, lf) in spec::leaves(kind).filter(|l| spec::gte(v, l.since)).enumerate() {
				let val = match pat {
					Pattern::Special => special(lf.ty, &mut rng),
					_ => match lf.ty {
						// distinct within the event for every width (k < 40)
						Ty::U8 | Ty::I8 => (base.wrapping_add(k as u32 * 5 + 1)) & 0xFF,
						Ty::U16 => (base.wrapping_add(k as u32 * 257 + 1)) & 0xFFFF,
						_ => base.wrapping_mul(2654435761).wrapping_add(k as u32 * 0x0101_0101 + 1),
					},
				};
				let n = lf.ty.size();
				full[lf.off..lf.off + n].copy_from_slice(&val.to_be_bytes()[4 - n..]);
			}
			rng.fill(&mut full[size..]);
		}
	}
	full.split_off(h)
}

#[derive(Clone, Debug)]
pub struct GenCfg {
	pub max_frames: usize,
	pub max_items: usize,
	pub big_gecko: bool,
	/// allow versions above the supported maximum (C08/C09): layout 3.16 + extras
	pub newer: bool,
	/// force a finished replay (Game End present)
	pub finished: bool,
	pub metadata_depth: usize,
}

impl GenCfg {
	pub fn quick() -> Self {
		GenCfg { max_frames: 40, max_items: 15, big_gecko: false, newer: false, finished: false, metadata_depth: 6 }
	}
	pub fn thorough() -> Self {
		GenCfg { max_frames: 400, max_items: 60, big_gecko: true, newer: false, finished: false, metadata_depth: 12 }
	}
	pub fn small() -> Self {
		GenCfg { max_frames: 6, max_items: 3, big_gecko: false, newer: false, finished: false, metadata_depth: 3 }
	}
}

pub fn gen_version(d: &mut Dna) -> (u8, u8, u8) {
	let sel = d.u8();
	let (ma, mi) = if sel < 100 {
		// layout-introducing versions and their immediate predecessors
		let k = d.below(spec::LAYOUT_VERSIONS.len() * 2);
		let (ma, mi) = spec::LAYOUT_VERSIONS[k / 2];
		if k % 2 == 1 && !(ma == 0 && mi <= 1) {
			if mi == 0 {
				(ma - 1, 255)
			} else {
				(ma, mi - 1)
			}
		} else {
			(ma, mi)
		}
	} else if sel < 180 {
		// the richest regime (items, bookends, gecko): 3.0..=3.16
		(3, d.below(17) as u8)
	} else {
		let all = spec::all_minors();
		all[d.below(all.len())]
	};
	let patch = if (ma, mi) == (3, 16) { 0 } else { d.u8() };
	(ma, mi, patch)
}

const SAFE_SJIS_2: [(u8, u8); 6] = [(0x82, 0xA0), (0x82, 0xF1), (0x83, 0x40), (0x83, 0x96), (0x81, 0x40), (0x88, 0x9F)];

/// Fixed-width Shift-JIS field: valid text, optional NUL, garbage after.
pub fn gen_sjis_field(d: &mut Dna, width: usize, out: &mut [u8]) {
	let mode = d.u8();
	if mode == 0 {
		return; // all zero
	}
	let len = d.below(width + 1);
	let mut i = 0;
	while i < len {
		let k = d.u8();
		if k < 150 || i + 2 > len {
			out[i] = if k < 100 { 0x20 + (k % 0x5F) } else { 0xA1 + (k % 0x3F) };
			i += 1;
		} else {
			let (a, b) = SAFE_SJIS_2[(k as usize) % SAFE_SJIS_2.len()];
			out[i] = a;
			out[i + 1] = b;
			i += 2;
		}
	}
	if len < width {
		out[len] = 0;
		// garbage after the NUL (never examined by a correct reader)
		if mode >= 128 {
			let mut rng = SplitMix(d.u32() as u64);
			rng.fill(&mut out[len + 1..width]);
		}
	}
}

/// Fixed-width UTF-8 field (Slippi UID, match id): text, NUL, garbage.
pub fn gen_utf8_field(d: &mut Dna, width: usize, out: &mut [u8]) {
	let mode = d.u8();
	if mode == 0 {
		return;
	}
	// keep a NUL within the width (the recorder always terminates these)
	let len = d.below(width);
	let mut i = 0;
	while i < len {
		let k = d.u8();
		if k < 200 || i + 2 > len {
			out[i] = 0x21 + (k % 0x5E);
			i += 1;
		} else {
			out[i] = 0xC3;
			out[i + 1] = 0x80 + (k % 0x40);
			i += 2;
		}
	}
	out[len] = 0;
	if mode >= 128 {
		let mut rng = SplitMix(d.u32() as u64);
		rng.fill(&mut out[len + 1..width]);
	}
}

#[derive(Clone, Debug)]
pub struct PortPlan {
	pub port: u8,
	pub ics: bool,
	pub ptype: u8,
}

pub fn gen_ports(d: &mut Dna) -> Vec<PortPlan> {
	// every non-empty subset of the four ports; 0 -> {P1}
	let mask = 1 + d.below(15);
	let mut v = Vec::new();
	for p in 0..4u8 {
		if mask & (1 << p) != 0 {
			let b = d.u8();
			v.push(PortPlan { port: p, ics: b >= 192, ptype: (b % 3) });
		}
	}
	v
}

/// Game Start block of the length class for `(ma, mi)` (or `len` if given), all mapped fields legal.
pub fn gen_start(d: &mut Dna, version: (u8, u8, u8), ports: &[PortPlan], len: Option<usize>) -> Vec<u8> {
	let len = len.unwrap_or_else(|| spec::start_size((version.0, version.1)));
	let mut full = vec![0u8; 760];
	let fill_seed = d.u32();
	if fill_seed != 0 {
		// unmapped bytes and mapped free-range fields: random
		SplitMix(fill_seed as u64).fill(&mut full);
	}
	full[0] = version.0;
	full[1] = version.1;
	full[2] = version.2;
	let flags = d.u8();
	full[gs::BOMBS] = match flags & 3 {
		0 => 0,
		1 => 1,
		_ => full[gs::BOMBS],
	};
	full[gs::TEAMS] = match (flags >> 2) & 3 {
		0 => 0,
		1 => 1,
		_ => full[gs::TEAMS],
	};
	for i in 0..6 {
		let b = gs::PLAYERS + i * gs::PLAYER_LEN;
		if i < 4 {
			match ports.iter().find(|p| p.port as usize == i) {
				Some(p) => {
					full[b + gs::P_TYPE] = p.ptype;
					let c = full[b + gs::P_CHAR];
					full[b + gs::P_CHAR] = if p.ics {
						spec::ICE_CLIMBERS
					} else if c == spec::ICE_CLIMBERS {
						2
					} else {
						c
					};
				}
				None => {
					// empty slot: type 3 (or any other value outside 0..=2)
					let t = full[b + gs::P_TYPE];
					full[b + gs::P_TYPE] = if t < 3 { 3 } else { t };
				}
			}
		}
	}
	for i in 0..4 {
		let u = d.u8();
		let o = gs::UCF + 8 * i;
		full[o..o + 8].copy_from_slice(&[0, 0, 0, u % 3, 0, 0, 0, (u / 3) % 3]);
		let o = gs::NAME_TAG + 16 * i;
		full[o..o + 16].fill(0);
		gen_sjis_field(d, 16, &mut full[o..o + 16]);
		let o = gs::NP_NAME + 31 * i;
		full[o..o + 31].fill(0);
		gen_sjis_field(d, 31, &mut full[o..o + 31]);
		let o = gs::NP_CODE + 10 * i;
		full[o..o + 10].fill(0);
		gen_sjis_field(d, 10, &mut full[o..o + 10]);
		let o = gs::NP_UID + 29 * i;
		full[o..o + 29].fill(0);
		gen_utf8_field(d, 29, &mut full[o..o + 29]);
	}
	full[gs::LANGUAGE] = d.u8() & 1;
	full[gs::MATCH_ID..gs::MATCH_ID + 51].fill(0);
	gen_utf8_field(d, 51, &mut full[gs::MATCH_ID..gs::MATCH_ID + 51]);
	full.truncate(len);
	full
}

pub const END_METHODS: [u8; 5] = [0, 1, 2, 3, 7];
pub const LRAS: [u8; 5] = [255, 0, 1, 2, 3];
pub const PLACEMENTS: [u8; 5] = [0xFF, 0, 1, 2, 3];

pub fn gen_end_bytes(d: &mut Dna, len: usize) -> Vec<u8> {
	let mut b = vec![END_METHODS[d.below(5)]];
	if len >= 2 {
		b.push(LRAS[d.below(5)]);
	}
	while b.len() < len {
		b.push(PLACEMENTS[d.below(5)]);
	}
	b
}

pub fn gen_string(d: &mut Dna, max: usize) -> String {
	let sel = d.u8();
	let len = match sel {
		0..=199 => d.below(12.min(max + 1)),
		200..=249 => d.below(max + 1),
		_ => max,
	};
	let mut s = String::new();
	// a byte-order mark / non-character at the very start (decoders that sniff for a BOM strip it)
	if sel % 16 == 5 && len >= 3 {
		s.push(['\u{feff}', '\u{fffe}', '\u{fffd}'][(sel as usize / 16) % 3]);
	}
	while s.len() < len {
		let k = d.u8();
		let c = match k {
			0..=179 => (0x20 + (k % 0x5F)) as char,
			180..=209 => char::from_u32(0xC0 + (k as u32 % 0x40)).unwrap(),
			210..=239 => char::from_u32(0x3041 + (k as u32 % 0x50)).unwrap(),
			240..=250 => char::from_u32(0x1F600 + (k as u32 % 0x30)).unwrap(),
			_ => ['\0', '"', '\\', '\n', '\u{7f}', '\u{feff}', '\u{2028}'][(k % 7) as usize],
		};
		if s.len() + c.len_utf8() > len {
			s.push('x');
		} else {
			s.push(c);
		}
	}
	s
}

const REAL_KEYS: [&str; 8] = ["startAt", "lastFrame", "players", "playedOn", "consoleNick", "characters", "names", "netplay"];
/// keys that JSON libraries treat specially when certain features are switched on (serde_json's private tokens), and friends
const MAGIC_KEYS: [&str; 6] = ["$serde_json::private::RawValue", "$serde_json::private::Number", "$serde_json::private::Map", "__proto__", "$ref", "$oid"];

pub fn gen_meta_map(d: &mut Dna, depth_left: usize, max_entries: usize) -> Vec<(String, Meta)> {
	let n = d.below(max_entries + 1);
	let mut m: Vec<(String, Meta)> = Vec::new();
	for i in 0..n {
		let ksel = d.u8();
		let mut key = match ksel {
			0..=99 => REAL_KEYS[(ksel as usize) % REAL_KEYS.len()].to_string(),
			100..=139 => format!("{}", ksel % 8),
			140..=147 => String::new(),
			148..=149 => MAGIC_KEYS[d.below(MAGIC_KEYS.len())].to_string(),
			150..=154 => "k".repeat(255),
			_ => gen_string(d, 255),
		};
		if m.iter().any(|(k, _)| *k == key) {
			// distinct keys per map: make it unique deterministically
			let base: String = key.chars().take(60).collect();
			key = format!("{}#{}", base, i);
			while m.iter().any(|(k, _)| *k == key) {
				key.push('_');
			}
		}
		let vsel = d.u8();
		let val = match vsel {
			0..=84 => Meta::Str(gen_string(d, 255)),
			85..=89 => Meta::Str(["[1,2]", "123", "{\"a\":1}", "null", "1e400", "-0"][d.below(6)].to_string()),
			90..=169 => Meta::Int(match d.u8() {
				0..=39 => 0,
				40..=59 => 1,
				60..=79 => -1,
				80..=99 => i32::MIN,
				100..=119 => i32::MAX,
				120..=149 => d.u16() as i32,
				_ => d.u32() as i32,
			}),
			_ => {
				if depth_left > 0 {
					Meta::Map(gen_meta_map(d, depth_left - 1, max_entries.min(4)))
				} else {
					Meta::Int(d.u16() as i32 - 30000)
				}
			}
		};
		m.push((key, val));
	}
	m
}

/// Many long strings: `n` entries with keys and values near the 255-byte UBJSON limit, so that the
/// metadata (and its JSON rendering) crosses 8 KiB / 64 KiB buffer sizes (n = 20 -> ~9 KiB, n = 150 -> ~68 KiB).
pub fn bulky_metadata(n: usize, seed: u64) -> Vec<(String, Meta)> {
	(0..n)
		.map(|i| {
			let klen = [3usize, 40, 200, 255][(i + seed as usize) % 4];
			let mut key = format!("{:03}", i);
			while key.len() < klen {
				key.push((b'a' + ((key.len() as u64 + seed) % 26) as u8) as char);
			}
			let mut val = String::new();
			let mut k = 0u64;
			while val.len() < 252 {
				let c = match (i as u64 + k + seed) % 9 {
					0 => 'é',
					1 => 'ポ',
					2 => '"',
					_ => (b' ' + ((i as u64 * 7 + k + seed) % 90) as u8) as char,
				};
				val.push(c);
				k += 1;
			}
			while val.len() < 255 {
				val.push('~');
			}
			(key, Meta::Str(val))
		})
		.collect()
}

pub fn gen_metadata(d: &mut Dna, cfg: &GenCfg) -> Option<Vec<(String, Meta)>> {
	match d.u8() {
		0..=79 => None,
		80..=241 => Some(gen_meta_map(d, cfg.metadata_depth, 8)),
		242..=245 => {
			// wide: many sibling maps at depth 1-2 (the format bounds depth and string length, not the number of maps)
			let n = [100usize, 126, 127, 128, 200, 300][d.below(6)] + d.below(3);
			Some(
				(0..n)
					.map(|i| {
						let v = match d.u8() {
							0..=149 => Meta::Map(vec![]),
							150..=219 => Meta::Map(vec![("characters".into(), Meta::Map(vec![(format!("{}", i % 26), Meta::Int(i as i32 - 64))]))]),
							_ => Meta::Int(i as i32),
						};
						(format!("{}", i), v)
					})
					.collect(),
			)
		}
		// (one in eight of these crosses 1 MiB)
		246..=249 => Some(bulky_metadata([20usize, 40, 150, 300, 300, 150, 40, 5200][d.below(8)] + d.below(8), d.u8() as u64)),
		_ => {
			// a chain nested up to the format limit
			let depth = 1 + d.below(126);
			let mut m = vec![("leaf".to_string(), Meta::Int(d.u16() as i32))];
			for i in 0..depth {
				m = vec![(format!("n{}", i % 7), Meta::Map(m))];
			}
			Some(m)
		}
	}
}

pub fn gen_gecko(d: &mut Dna, cfg: &GenCfg) -> Option<Gecko> {
	let sel = d.u8();
	let blocks = match sel {
		0..=119 => return None,
		120..=189 => 1,
		190..=239 => 2 + d.below(2),
		_ => {
			if cfg.big_gecko {
				129 + d.below(12)
			} else {
				2 + d.below(4)
			}
		}
	};
	// size of the last block: the edges (1 byte, 511, exactly full) get real weight
	let last = match d.u8() {
		0..=59 => 512,
		60..=89 => 1,
		90..=109 => 511,
		_ => 1 + d.below(512),
	};
	let mut actual = ((blocks - 1) * 512 + last) as u32;
	if actual % 65536 == 0 {
		actual -= 1; // excluded by construction: the recorder itself would declare size 0
	}
	let mut bytes = vec![0u8; blocks * 512];
	let seed = d.u32();
	if seed != 0 {
		SplitMix(seed as u64).fill(&mut bytes);
	}
	Some(Gecko { bytes, actual })
}

/// Frame history for the model's regime.
pub fn gen_frames(d: &mut Dna, m: &ModelGame, cfg: &GenCfg) -> Vec<FrameOcc> {
	let v = m.v();
	let slots = m.slots();
	let ns = slots.len();
	let lsel = d.u8();
	let n = match lsel {
		0..=199 => d.below(cfg.max_frames.min(12) + 1),
		_ => d.below(cfg.max_frames + 1),
	};
	let old = !spec::gte(v, (2, 2));
	// shape of presence for this game
	let shape = d.u8();
	let never = if shape >= 240 && ns > 1 { Some(d.below(ns)) } else { None };
	let mut frames = Vec::with_capacity(n);
	let mut id = spec::FIRST_FRAME;
	for fi in 0..n {
		let fsel = d.u8();
		if fi > 0 {
			if old {
				id += 1;
			} else {
				match fsel {
					0..=209 => id += 1,
					210..=243 => {
						let back = d.below(8) as i32;
						id = (id - back).max(spec::FIRST_FRAME);
					}
					_ => id += 2 + d.below(5) as i32,
				}
			}
		}
		let psel = d.u8();
		let mut present = vec![true; ns];
		if psel >= 170 {
			let mask = d.u8();
			for s in 0..ns {
				if mask & (1 << s) != 0 {
					present[s] = false;
				}
			}
		}
		if let Some(k) = never {
			present[k] = false;
		}
		if old && !present.iter().any(|p| *p) {
			present[(psel as usize) % ns] = true;
		}
		let seed = d.u32() as u64;
		let pat = Pattern::from_byte(d.u8());
		let fseed = seed.wrapping_mul(0x9E37_79B9).wrapping_add(fi as u64);
		let chars = (0..ns)
			.map(|s| {
				present[s].then(|| CharData {
					pre: payload(Kind::Pre, v, fseed ^ (s as u64 * 2 + 1), pat, m.extra.pre),
					post: payload(Kind::Post, v, fseed ^ (s as u64 * 2 + 2), pat, m.extra.post),
				})
			})
			.collect();
		let nitems = if spec::gte(v, (3, 0)) {
			match d.u8() {
				0..=139 => 0,
				140..=239 => 1 + d.below(cfg.max_items.min(4)),
				240..=253 => d.below(cfg.max_items + 1),
				// counts around the 8-bit boundary (a per-frame counter narrower than the data allows)
				_ => [255usize, 256, 257, 300][d.below(4)],
			}
		} else {
			0
		};
		let items =
			(0..nitems).map(|k| payload(Kind::Item, v, fseed ^ (0x100 + k as u64), pat, m.extra.item)).collect();
		frames.push(FrameOcc {
			id,
			start: spec::gte(v, (2, 2)).then(|| payload(Kind::FrameStart, v, fseed ^ 0x51, pat, m.extra.fstart)),
			chars,
			items,
			end: spec::gte(v, (3, 0)).then(|| payload(Kind::FrameEnd, v, fseed ^ 0xE7, pat, m.extra.fend)),
		});
	}
	frames
}

pub fn gen_model(d: &mut Dna, cfg: &GenCfg) -> ModelGame {
	let mut version = gen_version(d);
	let mut extra = Extra::default();
	let mut layout = (version.0, version.1);
	if cfg.newer {
		// versions above the supported maximum, 3.16 layout plus optional extra trailing bytes
		let sel = d.u8();
		version = match sel {
			0..=59 => (3, 16, 1 + d.below(255) as u8),
			60..=139 => (3, 17 + d.below(239) as u8, d.u8()),
			140..=199 => (4 + d.below(252) as u8, d.u8(), d.u8()),
			200..=219 => (255, 255, 255),
			_ => (4, 0, 0),
		};
		layout = (3, 16);
		if d.u8() >= 64 {
			extra = Extra {
				pre: d.below(41),
				post: d.below(41),
				item: d.below(41),
				fstart: d.below(41),
				fend: d.below(41),
				gstart: d.below(41),
				gend: d.below(41),
			};
			// the largest payload the table can declare (65 535 bytes) for Game Start / Game End
			match d.u8() {
				0..=5 => extra.gstart = 65535 - spec::start_size((3, 16)),
				6..=11 => extra.gend = 65535 - spec::end_size((3, 16)),
				_ => {}
			}
		}
	}
	let ports = gen_ports(d);
	let mut start = gen_start(d, version, &ports, cfg.newer.then_some(760));
	if extra.gstart > 0 {
		let mut x = vec![0u8; extra.gstart];
		SplitMix(d.u32() as u64 | 1).fill(&mut x);
		start.extend_from_slice(&x);
	}
	let mut m = ModelGame {
		version,
		layout,
		start,
		ports: ports.iter().map(|p| PortSpec { port: p.port, ics: p.ics }).collect(),
		frames: Vec::new(),
		gecko: None,
		end: EndSpec::None,
		metadata: None,
		extra,
	};
	if spec::gte(m.v(), (3, 3)) {
		m.gecko = gen_gecko(d, cfg);
	}
	m.frames = gen_frames(d, &m, cfg);
	let esel = d.u8();
	let elen = spec::end_size(m.v());
	let gend = m.extra.gend;
	let mut end_bytes = |d: &mut Dna| {
		let mut b = gen_end_bytes(d, elen);
		if gend > 0 {
			let mut x = vec![0u8; gend];
			SplitMix(d.u32() as u64 | 1).fill(&mut x);
			b.extend_from_slice(&x);
		}
		b
	};
	m.end = match esel {
		0..=159 => EndSpec::One(end_bytes(d)),
		160..=209 => {
			if cfg.finished {
				EndSpec::One(end_bytes(d))
			} else {
				EndSpec::None
			}
		}
		_ => EndSpec::Two(end_bytes(d)),
	};
	m.metadata = gen_metadata(d, cfg);
	m
}

/// Deterministic simple model for sweeps.
pub fn simple_model(
	version: (u8, u8, u8),
	ports: &[(u8, bool)],
	nframes: usize,
	seed: u64,
	pat: Pattern,
	end: u8,
	metadata: bool,
) -> ModelGame {
	let v = (version.0, version.1);
	let plans: Vec<PortPlan> =
		ports.iter().map(|(p, ics)| PortPlan { port: *p, ics: *ics, ptype: (seed % 3) as u8 }).collect();
	let dna_bytes: Vec<u8> = {
		let mut r = SplitMix(seed);
		let mut b = vec![0u8; 512];
		r.fill(&mut b);
		b
	};
	let mut d = Dna::new(&dna_bytes);
	let start = gen_start(&mut d, version, &plans, None);
	let mut m = ModelGame {
		version,
		layout: v,
		start,
		ports: ports.iter().map(|(p, ics)| PortSpec { port: *p, ics: *ics }).collect(),
		frames: Vec::new(),
		gecko: None,
		end: EndSpec::None,
		metadata: None,
		extra: Extra::default(),
	};
	let ns = m.slots().len();
	for fi in 0..nframes {
		let fseed = seed.wrapping_mul(31).wrapping_add(fi as u64 * 1000);
		m.frames.push(FrameOcc {
			id: spec::FIRST_FRAME + fi as i32,
			start: spec::gte(v, (2, 2)).then(|| payload(Kind::FrameStart, v, fseed ^ 0x51, pat, 0)),
			chars: (0..ns)
				.map(|s| {
					Some(CharData {
						pre: payload(Kind::Pre, v, fseed ^ (s as u64 * 2 + 1), pat, 0),
						post: payload(Kind::Post, v, fseed ^ (s as u64 * 2 + 2), pat, 0),
					})
				})
				.collect(),
			items: if spec::gte(v, (3, 0)) {
				(0..(fi % 3)).map(|k| payload(Kind::Item, v, fseed ^ (0x100 + k as u64), pat, 0)).collect()
			} else {
				vec![]
			},
			end: spec::gte(v, (3, 0)).then(|| payload(Kind::FrameEnd, v, fseed ^ 0xE7, pat, 0)),
		});
	}
	let eb = gen_end_bytes(&mut d, spec::end_size(v));
	m.end = match end {
		0 => EndSpec::None,
		1 => EndSpec::One(eb),
		_ => EndSpec::Two(eb),
	};
	if metadata {
		m.metadata = Some(vec![
			("startAt".into(), Meta::Str("2018-06-22T07:52:59Z".into())),
			("lastFrame".into(), Meta::Int(nframes as i32 - 124)),
			(
				"players".into(),
				Meta::Map(vec![(
					"0".into(),
					Meta::Map(vec![("characters".into(), Meta::Map(vec![("18".into(), Meta::Int(5209))]))]),
				)]),
			),
			("playedOn".into(), Meta::Str("dolphin".into())),
		]);
	}
	m
}
