//! Normalised "views" of frame data from every representation peppi exposes, addressed by the leaf
//! paths of `spec.rs`. The accessor tables are written by hand from peppi's *public field names*.

use arrow2::array::{Array, ListArray, PrimitiveArray, StructArray};
use arrow2::datatypes::DataType;
use peppi::frame::{immutable, mutable, transpose};

use crate::model::ModelGame;
use crate::spec::{self, Kind, Ty};

/// column: (leaf path, None = column absent for this version, else one bit pattern per row)
pub type Cols = Vec<(&'static str, Option<Vec<u64>>)>;

#[derive(Clone, Debug, PartialEq)]
pub struct CharView {
	/// presence per row (None = bitmap absent = all present)
	pub valid: Option<Vec<bool>>,
	pub pre: Cols,
	pub post: Cols,
}

#[derive(Clone, Debug, PartialEq)]
pub struct PortView {
	pub port: u8,
	pub leader: CharView,
	pub follower: Option<CharView>,
}

#[derive(Clone, Debug, PartialEq)]
pub struct FrameView {
	pub ids: Vec<i32>,
	pub ports: Vec<PortView>,
	pub start: Option<Cols>,
	pub end: Option<Cols>,
	pub item_offsets: Option<Vec<i32>>,
	pub item: Option<Cols>,
}

pub trait Bits: Copy {
	fn bits(self) -> u64;
}
impl Bits for u8 {
	fn bits(self) -> u64 {
		self as u64
	}
}
impl Bits for i8 {
	fn bits(self) -> u64 {
		self as u8 as u64
	}
}
impl Bits for u16 {
	fn bits(self) -> u64 {
		self as u64
	}
}
impl Bits for u32 {
	fn bits(self) -> u64 {
		self as u64
	}
}
impl Bits for i32 {
	fn bits(self) -> u64 {
		self as u32 as u64
	}
}
impl Bits for f32 {
	fn bits(self) -> u64 {
		self.to_bits() as u64
	}
}

fn v<T: Bits>(s: &[T]) -> Option<Vec<u64>> {
	Some(s.iter().map(|x| x.bits()).collect())
}

// The macros below expand to the same field-name table for the mutable and the immutable structs
// (both expose `.values()` yielding something that derefs to a slice).
macro_rules! r {
	($e:expr) => {
		v(&$e.values()[..])
	};
}
macro_rules! o {
	($e:expr) => {
		$e.as_ref().and_then(|a| v(&a.values()[..]))
	};
}

macro_rules! pre_cols {
	($p:expr) => {
		vec![
			("random_seed", r!($p.random_seed)),
			("state", r!($p.state)),
			("position.x", r!($p.position.x)),
			("position.y", r!($p.position.y)),
			("direction", r!($p.direction)),
			("joystick.x", r!($p.joystick.x)),
			("joystick.y", r!($p.joystick.y)),
			("cstick.x", r!($p.cstick.x)),
			("cstick.y", r!($p.cstick.y)),
			("triggers", r!($p.triggers)),
			("buttons", r!($p.buttons)),
			("buttons_physical", r!($p.buttons_physical)),
			("triggers_physical.l", r!($p.triggers_physical.l)),
			("triggers_physical.r", r!($p.triggers_physical.r)),
			("raw_analog_x", o!($p.raw_analog_x)),
			("percent", o!($p.percent)),
			("raw_analog_y", o!($p.raw_analog_y)),
		]
	};
}

macro_rules! post_cols {
	($p:expr) => {
		vec![
			("character", r!($p.character)),
			("state", r!($p.state)),
			("position.x", r!($p.position.x)),
			("position.y", r!($p.position.y)),
			("direction", r!($p.direction)),
			("percent", r!($p.percent)),
			("shield", r!($p.shield)),
			("last_attack_landed", r!($p.last_attack_landed)),
			("combo_count", r!($p.combo_count)),
			("last_hit_by", r!($p.last_hit_by)),
			("stocks", r!($p.stocks)),
			("state_age", o!($p.state_age)),
			("state_flags.0", $p.state_flags.as_ref().and_then(|s| r!(s.0))),
			("state_flags.1", $p.state_flags.as_ref().and_then(|s| r!(s.1))),
			("state_flags.2", $p.state_flags.as_ref().and_then(|s| r!(s.2))),
			("state_flags.3", $p.state_flags.as_ref().and_then(|s| r!(s.3))),
			("state_flags.4", $p.state_flags.as_ref().and_then(|s| r!(s.4))),
			("misc_as", o!($p.misc_as)),
			("airborne", o!($p.airborne)),
			("ground", o!($p.ground)),
			("jumps", o!($p.jumps)),
			("l_cancel", o!($p.l_cancel)),
			("hurtbox_state", o!($p.hurtbox_state)),
			("velocities.self_x_air", $p.velocities.as_ref().and_then(|s| r!(s.self_x_air))),
			("velocities.self_y", $p.velocities.as_ref().and_then(|s| r!(s.self_y))),
			("velocities.knockback_x", $p.velocities.as_ref().and_then(|s| r!(s.knockback_x))),
			("velocities.knockback_y", $p.velocities.as_ref().and_then(|s| r!(s.knockback_y))),
			("velocities.self_x_ground", $p.velocities.as_ref().and_then(|s| r!(s.self_x_ground))),
			("hitlag", o!($p.hitlag)),
			("animation_index", o!($p.animation_index)),
			("last_hit_by_instance", o!($p.last_hit_by_instance)),
			("instance_id", o!($p.instance_id)),
		]
	};
}

macro_rules! item_cols {
	($p:expr) => {
		vec![
			("type", r!($p.r#type)),
			("state", r!($p.state)),
			("direction", r!($p.direction)),
			("velocity.x", r!($p.velocity.x)),
			("velocity.y", r!($p.velocity.y)),
			("position.x", r!($p.position.x)),
			("position.y", r!($p.position.y)),
			("damage", r!($p.damage)),
			("timer", r!($p.timer)),
			("id", r!($p.id)),
			("misc.0", $p.misc.as_ref().and_then(|s| r!(s.0))),
			("misc.1", $p.misc.as_ref().and_then(|s| r!(s.1))),
			("misc.2", $p.misc.as_ref().and_then(|s| r!(s.2))),
			("misc.3", $p.misc.as_ref().and_then(|s| r!(s.3))),
			("owner", o!($p.owner)),
			("instance_id", o!($p.instance_id)),
		]
	};
}

macro_rules! start_cols {
	($p:expr) => {
		vec![("random_seed", r!($p.random_seed)), ("scene_frame_counter", o!($p.scene_frame_counter))]
	};
}

macro_rules! end_cols {
	($p:expr) => {
		vec![("latest_finalized_frame", o!($p.latest_finalized_frame))]
	};
}

fn char_im(d: &immutable::Data) -> CharView {
	CharView {
		valid: d.validity.as_ref().map(|b| b.iter().collect()),
		pre: pre_cols!(d.pre),
		post: post_cols!(d.post),
	}
}

pub fn view_immutable(f: &immutable::Frame) -> FrameView {
	FrameView {
		ids: f.id.values().to_vec(),
		ports: f
			.ports
			.iter()
			.map(|p| PortView {
				port: p.port as u8,
				leader: char_im(&p.leader),
				follower: p.follower.as_ref().map(char_im),
			})
			.collect(),
		start: f.start.as_ref().map(|s| start_cols!(s)),
		end: f.end.as_ref().map(|s| end_cols!(s)),
		item_offsets: f.item_offset.as_ref().map(|o| o.buffer().to_vec()),
		item: f.item.as_ref().map(|s| item_cols!(s)),
	}
}

fn char_mu(d: &mutable::Data) -> CharView {
	CharView {
		valid: d.validity.as_ref().map(|b| b.iter().collect()),
		pre: pre_cols!(d.pre),
		post: post_cols!(d.post),
	}
}

pub fn view_mutable(f: &mutable::Frame) -> FrameView {
	FrameView {
		ids: f.id.values().to_vec(),
		ports: f
			.ports
			.iter()
			.map(|p| PortView {
				port: p.port as u8,
				leader: char_mu(&p.leader),
				follower: p.follower.as_ref().map(char_mu),
			})
			.collect(),
		start: f.start.as_ref().map(|s| start_cols!(s)),
		end: f.end.as_ref().map(|s| end_cols!(s)),
		item_offsets: f.item_offset.as_ref().map(|o| o.as_slice().to_vec()),
		item: f.item.as_ref().map(|s| item_cols!(s)),
	}
}

// ---- transposed (row) structs: a second, independent field-name table --------------------------

fn ob<T: Bits>(x: Option<T>) -> Option<u64> {
	x.map(|x| x.bits())
}

pub fn row_pre(p: &transpose::Pre) -> Vec<(&'static str, Option<u64>)> {
	vec![
		("random_seed", Some(p.random_seed.bits())),
		("state", Some(p.state.bits())),
		("position.x", Some(p.position.x.bits())),
		("position.y", Some(p.position.y.bits())),
		("direction", Some(p.direction.bits())),
		("joystick.x", Some(p.joystick.x.bits())),
		("joystick.y", Some(p.joystick.y.bits())),
		("cstick.x", Some(p.cstick.x.bits())),
		("cstick.y", Some(p.cstick.y.bits())),
		("triggers", Some(p.triggers.bits())),
		("buttons", Some(p.buttons.bits())),
		("buttons_physical", Some(p.buttons_physical.bits())),
		("triggers_physical.l", Some(p.triggers_physical.l.bits())),
		("triggers_physical.r", Some(p.triggers_physical.r.bits())),
		("raw_analog_x", ob(p.raw_analog_x)),
		("percent", ob(p.percent)),
		("raw_analog_y", ob(p.raw_analog_y)),
	]
}

pub fn row_post(p: &transpose::Post) -> Vec<(&'static str, Option<u64>)> {
	vec![
		("character", Some(p.character.bits())),
		("state", Some(p.state.bits())),
		("position.x", Some(p.position.x.bits())),
		("position.y", Some(p.position.y.bits())),
		("direction", Some(p.direction.bits())),
		("percent", Some(p.percent.bits())),
		("shield", Some(p.shield.bits())),
		("last_attack_landed", Some(p.last_attack_landed.bits())),
		("combo_count", Some(p.combo_count.bits())),
		("last_hit_by", Some(p.last_hit_by.bits())),
		("stocks", Some(p.stocks.bits())),
		("state_age", ob(p.state_age)),
		("state_flags.0", p.state_flags.map(|s| s.0.bits())),
		("state_flags.1", p.state_flags.map(|s| s.1.bits())),
		("state_flags.2", p.state_flags.map(|s| s.2.bits())),
		("state_flags.3", p.state_flags.map(|s| s.3.bits())),
		("state_flags.4", p.state_flags.map(|s| s.4.bits())),
		("misc_as", ob(p.misc_as)),
		("airborne", ob(p.airborne)),
		("ground", ob(p.ground)),
		("jumps", ob(p.jumps)),
		("l_cancel", ob(p.l_cancel)),
		("hurtbox_state", ob(p.hurtbox_state)),
		("velocities.self_x_air", p.velocities.map(|s| s.self_x_air.bits())),
		("velocities.self_y", p.velocities.map(|s| s.self_y.bits())),
		("velocities.knockback_x", p.velocities.map(|s| s.knockback_x.bits())),
		("velocities.knockback_y", p.velocities.map(|s| s.knockback_y.bits())),
		("velocities.self_x_ground", p.velocities.map(|s| s.self_x_ground.bits())),
		("hitlag", ob(p.hitlag)),
		("animation_index", ob(p.animation_index)),
		("last_hit_by_instance", ob(p.last_hit_by_instance)),
		("instance_id", ob(p.instance_id)),
	]
}

pub fn row_item(p: &transpose::Item) -> Vec<(&'static str, Option<u64>)> {
	vec![
		("type", Some(p.r#type.bits())),
		("state", Some(p.state.bits())),
		("direction", Some(p.direction.bits())),
		("velocity.x", Some(p.velocity.x.bits())),
		("velocity.y", Some(p.velocity.y.bits())),
		("position.x", Some(p.position.x.bits())),
		("position.y", Some(p.position.y.bits())),
		("damage", Some(p.damage.bits())),
		("timer", Some(p.timer.bits())),
		("id", Some(p.id.bits())),
		("misc.0", p.misc.map(|s| s.0.bits())),
		("misc.1", p.misc.map(|s| s.1.bits())),
		("misc.2", p.misc.map(|s| s.2.bits())),
		("misc.3", p.misc.map(|s| s.3.bits())),
		("owner", ob(p.owner)),
		("instance_id", ob(p.instance_id)),
	]
}

pub fn row_start(p: &transpose::Start) -> Vec<(&'static str, Option<u64>)> {
	vec![("random_seed", Some(p.random_seed.bits())), ("scene_frame_counter", ob(p.scene_frame_counter))]
}

pub fn row_end(p: &transpose::End) -> Vec<(&'static str, Option<u64>)> {
	vec![("latest_finalized_frame", ob(p.latest_finalized_frame))]
}

// ---- Arrow struct array, walked by *name* ------------------------------------------------------

fn arrow_child<'a>(s: &'a StructArray, name: &str) -> Option<&'a dyn Array> {
	s.fields().iter().position(|f| f.name == name).map(|i| s.values()[i].as_ref())
}

fn prim_bits(a: &dyn Array) -> Result<Vec<u64>, String> {
	macro_rules! dc {
		($t:ty) => {
			a.as_any()
				.downcast_ref::<PrimitiveArray<$t>>()
				.map(|p| p.values().iter().map(|x| x.bits()).collect())
				.ok_or_else(|| format!("downcast to {} failed", stringify!($t)))
		};
	}
	match a.data_type() {
		DataType::UInt8 => dc!(u8),
		DataType::Int8 => dc!(i8),
		DataType::UInt16 => dc!(u16),
		DataType::UInt32 => dc!(u32),
		DataType::Int32 => dc!(i32),
		DataType::Float32 => dc!(f32),
		t => Err(format!("unexpected arrow type {:?}", t)),
	}
}

pub fn ty_of(dt: &DataType) -> Option<Ty> {
	Some(match dt {
		DataType::UInt8 => Ty::U8,
		DataType::Int8 => Ty::I8,
		DataType::UInt16 => Ty::U16,
		DataType::UInt32 => Ty::U32,
		DataType::Int32 => Ty::I32,
		DataType::Float32 => Ty::F32,
		_ => return None,
	})
}

/// Leaf column of `kind` addressed by path inside the struct array of that kind.
fn arrow_leaf(s: &StructArray, path: &str) -> Result<Option<Vec<u64>>, String> {
	let mut cur: &StructArray = s;
	let parts: Vec<&str> = path.split('.').collect();
	for (i, part) in parts.iter().enumerate() {
		match arrow_child(cur, part) {
			None => return Ok(None),
			Some(a) => {
				if i + 1 == parts.len() {
					return prim_bits(a).map(Some);
				}
				cur = a.as_any().downcast_ref::<StructArray>().ok_or_else(|| format!("{} is not a struct", part))?;
			}
		}
	}
	unreachable!()
}

fn arrow_cols(s: &StructArray, kind: Kind) -> Result<Cols, String> {
	spec::leaves(kind).map(|lf| Ok((lf.path, arrow_leaf(s, lf.path)?))).collect()
}

fn as_struct<'a>(a: &'a dyn Array, what: &str) -> Result<&'a StructArray, String> {
	a.as_any().downcast_ref::<StructArray>().ok_or_else(|| format!("{} is not a struct array", what))
}

fn arrow_char(s: &StructArray) -> Result<CharView, String> {
	Ok(CharView {
		valid: s.validity().map(|b| b.iter().collect()),
		pre: arrow_cols(as_struct(arrow_child(s, "pre").ok_or("no pre")?, "pre")?, Kind::Pre)?,
		post: arrow_cols(as_struct(arrow_child(s, "post").ok_or("no post")?, "post")?, Kind::Post)?,
	})
}

pub fn view_arrow(s: &StructArray) -> Result<FrameView, String> {
	let ids = arrow_child(s, "id")
		.and_then(|a| a.as_any().downcast_ref::<PrimitiveArray<i32>>())
		.ok_or("no id column")?
		.values()
		.to_vec();
	let ports_arr = as_struct(arrow_child(s, "ports").ok_or("no ports")?, "ports")?;
	let mut ports = Vec::new();
	for (f, a) in ports_arr.fields().iter().zip(ports_arr.values()) {
		let port = match f.name.as_str() {
			"P1" => 0,
			"P2" => 1,
			"P3" => 2,
			"P4" => 3,
			n => return Err(format!("bad port field name {}", n)),
		};
		let ps = as_struct(a.as_ref(), "port")?;
		ports.push(PortView {
			port,
			leader: arrow_char(as_struct(arrow_child(ps, "leader").ok_or("no leader")?, "leader")?)?,
			follower: match arrow_child(ps, "follower") {
				Some(a) => Some(arrow_char(as_struct(a, "follower")?)?),
				None => None,
			},
		});
	}
	let start = match arrow_child(s, "start") {
		Some(a) => Some(arrow_cols(as_struct(a, "start")?, Kind::FrameStart)?),
		None => None,
	};
	let end = match arrow_child(s, "end") {
		Some(a) => Some(arrow_cols(as_struct(a, "end")?, Kind::FrameEnd)?),
		None => None,
	};
	let (item_offsets, item) = match arrow_child(s, "item") {
		Some(a) => {
			let l = a.as_any().downcast_ref::<ListArray<i32>>().ok_or("item is not a list")?;
			(
				Some(l.offsets().buffer().to_vec()),
				Some(arrow_cols(as_struct(l.values().as_ref(), "item values")?, Kind::Item)?),
			)
		}
		None => (None, None),
	};
	Ok(FrameView { ids, ports, start, end, item_offsets, item })
}

// ---- expected view from the model (the oracle for C03/C04) ------------------------------------

fn decode(lf: &spec::Leaf, payload_after_header: &[u8], header: usize) -> u64 {
	let o = lf.off - header;
	let b = &payload_after_header[o..o + lf.ty.size()];
	let mut x = 0u64;
	for y in b {
		x = (x << 8) | *y as u64;
	}
	x
}

fn model_cols<'a>(kind: Kind, v: (u8, u8), rows: impl Iterator<Item = Option<&'a Vec<u8>>> + Clone) -> Cols {
	spec::leaves(kind)
		.map(|lf| {
			(
				lf.path,
				spec::gte(v, lf.since).then(|| {
					rows.clone().map(|r| r.map_or(0, |p| decode(lf, p, kind.header()))).collect::<Vec<u64>>()
				}),
			)
		})
		.collect()
}

/// What a correct reader must produce for the model (values at absent rows are 0 here and must
/// not be compared).
pub fn view_model(m: &ModelGame) -> FrameView {
	let v = m.v();
	let slots = m.slots();
	let mut ports = Vec::new();
	for p in &m.ports {
		let mk = |follower: bool| {
			let si = slots.iter().position(|s| s.port == p.port && s.follower == follower).unwrap();
			CharView {
				valid: Some(m.frames.iter().map(|f| f.chars[si].is_some()).collect()),
				pre: model_cols(Kind::Pre, v, m.frames.iter().map(|f| f.chars[si].as_ref().map(|c| &c.pre))),
				post: model_cols(Kind::Post, v, m.frames.iter().map(|f| f.chars[si].as_ref().map(|c| &c.post))),
			}
		};
		ports.push(PortView { port: p.port, leader: mk(false), follower: p.ics.then(|| mk(true)) });
	}
	let mut offs = vec![0i32];
	for f in &m.frames {
		offs.push(offs.last().unwrap() + f.items.len() as i32);
	}
	FrameView {
		ids: m.frames.iter().map(|f| f.id).collect(),
		ports,
		start: m.has_fstart().then(|| model_cols(Kind::FrameStart, v, m.frames.iter().map(|f| f.start.as_ref()))),
		end: m.has_fend().then(|| model_cols(Kind::FrameEnd, v, m.frames.iter().map(|f| f.end.as_ref()))),
		item_offsets: m.has_fend().then_some(offs),
		item: m
			.has_fend()
			.then(|| model_cols(Kind::Item, v, m.frames.iter().flat_map(|f| f.items.iter().map(Some)))),
	}
}

// ---- comparison ---------------------------------------------------------------------------------

fn cmp_cols(what: &str, a: &Cols, b: &Cols, rows: Option<&[bool]>, n: usize) -> Result<(), String> {
	if a.len() != b.len() {
		return Err(format!("{}: column count {} vs {}", what, a.len(), b.len()));
	}
	for ((pa, ca), (pb, cb)) in a.iter().zip(b) {
		if pa != pb {
			return Err(format!("{}: column name {} vs {}", what, pa, pb));
		}
		match (ca, cb) {
			(None, None) => {}
			(Some(x), Some(y)) => {
				// (one side is usually the model, whose columns have exactly `n` rows)
				if x.len() != y.len() {
					return Err(format!("{}.{}: length {} vs {} (rows {})", what, pa, x.len(), y.len(), n));
				}
				for i in 0..x.len() {
					if rows.map_or(true, |r| r.get(i).copied().unwrap_or(true)) && x[i] != y[i] {
						return Err(format!("{}.{} row {}: {:#x} vs {:#x}", what, pa, i, x[i], y[i]));
					}
				}
			}
			_ => {
				return Err(format!("{}.{}: presence {} vs {}", what, pa, ca.is_some(), cb.is_some()));
			}
		}
	}
	Ok(())
}

fn cmp_char(what: &str, a: &CharView, b: &CharView, n: usize) -> Result<(), String> {
	let va: Vec<bool> = a.valid.clone().unwrap_or_else(|| vec![true; n]);
	let vb: Vec<bool> = b.valid.clone().unwrap_or_else(|| vec![true; n]);
	if va.len() != vb.len() {
		return Err(format!("{}: validity length {} vs {} (rows {})", what, va.len(), vb.len(), n));
	}
	if let Some(i) = (0..va.len()).find(|&i| va[i] != vb[i]) {
		return Err(format!("{}: presence at row {}: {} vs {}", what, i, va[i], vb[i]));
	}
	cmp_cols(&format!("{}.pre", what), &a.pre, &b.pre, Some(&va), n)?;
	cmp_cols(&format!("{}.post", what), &a.post, &b.post, Some(&va), n)
}

/// Bit-exact comparison; values of absent characters are not compared.
pub fn diff_views(a: &FrameView, b: &FrameView) -> Result<(), String> {
	if a.ids != b.ids {
		let i = a.ids.iter().zip(&b.ids).position(|(x, y)| x != y).unwrap_or(a.ids.len().min(b.ids.len()));
		return Err(format!("ids differ (len {} vs {}), first at row {}", a.ids.len(), b.ids.len(), i));
	}
	let n = a.ids.len();
	if a.ports.len() != b.ports.len() {
		return Err(format!("port count {} vs {}", a.ports.len(), b.ports.len()));
	}
	for (pa, pb) in a.ports.iter().zip(&b.ports) {
		if pa.port != pb.port {
			return Err(format!("port number {} vs {}", pa.port, pb.port));
		}
		let w = format!("P{}", pa.port + 1);
		cmp_char(&format!("{}.leader", w), &pa.leader, &pb.leader, n)?;
		match (&pa.follower, &pb.follower) {
			(None, None) => {}
			(Some(x), Some(y)) => cmp_char(&format!("{}.follower", w), x, y, n)?,
			_ => return Err(format!("{}: follower presence differs", w)),
		}
	}
	match (&a.start, &b.start) {
		(None, None) => {}
		(Some(x), Some(y)) => cmp_cols("start", x, y, None, n)?,
		_ => return Err("start column presence differs".into()),
	}
	match (&a.end, &b.end) {
		(None, None) => {}
		(Some(x), Some(y)) => cmp_cols("end", x, y, None, n)?,
		_ => return Err("end column presence differs".into()),
	}
	match (&a.item_offsets, &b.item_offsets) {
		(None, None) => {}
		(Some(x), Some(y)) => {
			if x != y {
				return Err(format!("item offsets differ: {:?} vs {:?}", &x[..x.len().min(12)], &y[..y.len().min(12)]));
			}
		}
		_ => return Err("item offsets presence differs".into()),
	}
	match (&a.item, &b.item) {
		(None, None) => {}
		(Some(x), Some(y)) => {
			let ni = a.item_offsets.as_ref().and_then(|o| o.last().copied()).unwrap_or(0) as usize;
			cmp_cols("item", x, y, None, ni)?
		}
		_ => return Err("item column presence differs".into()),
	}
	Ok(())
}

/// Every nested validity bitmap of an immutable frame: (path, len, unset bits).
pub fn validity_report(f: &immutable::Frame) -> Vec<(String, usize, usize)> {
	let mut out = Vec::new();
	let mut add = |name: String, b: &Option<arrow2::bitmap::Bitmap>| {
		if let Some(b) = b {
			out.push((name, b.len(), b.unset_bits()));
		}
	};
	for p in &f.ports {
		let mut ch = |w: String, d: &immutable::Data| {
			add(format!("{}.validity", w), &d.validity);
			add(format!("{}.pre.validity", w), &d.pre.validity);
			add(format!("{}.pre.position.validity", w), &d.pre.position.validity);
			add(format!("{}.pre.joystick.validity", w), &d.pre.joystick.validity);
			add(format!("{}.pre.cstick.validity", w), &d.pre.cstick.validity);
			add(format!("{}.pre.triggers_physical.validity", w), &d.pre.triggers_physical.validity);
			add(format!("{}.post.validity", w), &d.post.validity);
			add(format!("{}.post.position.validity", w), &d.post.position.validity);
			if let Some(v) = &d.post.velocities {
				add(format!("{}.post.velocities.validity", w), &v.validity);
			}
		};
		ch(format!("{}.leader", p.port), &p.leader);
		if let Some(fo) = &p.follower {
			ch(format!("{}.follower", p.port), fo);
		}
	}
	if let Some(s) = &f.start {
		add("start.validity".into(), &s.validity);
	}
	if let Some(s) = &f.end {
		add("end.validity".into(), &s.validity);
	}
	out
}
