//! Reference model of a replay as an event history, plus the independent `.slp` encoder.
//! Nothing here calls peppi.

use crate::spec::{self, Kind};

/// Ordered metadata tree (UBJSON subset the recorder uses).
#[derive(Clone, Debug, PartialEq, Eq)]
pub enum Meta {
	Str(String),
	Int(i32),
	Map(Vec<(String, Meta)>),
}

impl Meta {
	pub fn depth(&self) -> usize {
		match self {
			Meta::Map(m) => 1 + m.iter().map(|(_, v)| v.depth()).max().unwrap_or(0),
			_ => 0,
		}
	}
	pub fn to_json(&self) -> serde_json::Value {
		match self {
			Meta::Str(s) => serde_json::Value::String(s.clone()),
			Meta::Int(i) => serde_json::Value::from(*i),
			Meta::Map(m) => {
				// NB: the engine's serde_json has preserve_order only through feature unification
				// with peppi; never rely on this map's order — compare with `cmp::meta_eq_json`.
				let mut o = serde_json::Map::new();
				for (k, v) in m {
					o.insert(k.clone(), v.to_json());
				}
				serde_json::Value::Object(o)
			}
		}
	}
}

/// UBJSON encoding of the *body* of a map (entries + closing brace; the opening brace is the caller's).
pub fn ubjson_map_body(entries: &[(String, Meta)], out: &mut Vec<u8>) {
	for (k, v) in entries {
		out.push(b'U');
		out.push(k.len() as u8);
		out.extend_from_slice(k.as_bytes());
		match v {
			Meta::Str(s) => {
				out.extend_from_slice(b"SU");
				out.push(s.len() as u8);
				out.extend_from_slice(s.as_bytes());
			}
			Meta::Int(i) => {
				out.push(b'l');
				out.extend_from_slice(&i.to_be_bytes());
			}
			Meta::Map(m) => {
				out.push(b'{');
				ubjson_map_body(m, out);
			}
		}
	}
	out.push(b'}');
}

#[derive(Clone, Debug, PartialEq, Eq)]
pub struct Gecko {
	/// n × 512 bytes
	pub bytes: Vec<u8>,
	/// 512·(n−1) < actual ≤ 512·n
	pub actual: u32,
}

#[derive(Clone, Debug, PartialEq, Eq)]
pub enum EndSpec {
	None,
	One(Vec<u8>),
	Two(Vec<u8>),
}

impl EndSpec {
	pub fn bytes(&self) -> Option<&Vec<u8>> {
		match self {
			EndSpec::None => None,
			EndSpec::One(b) | EndSpec::Two(b) => Some(b),
		}
	}
}

/// A character slot: (port 0..3, follower?)
#[derive(Clone, Copy, Debug, PartialEq, Eq, Hash, PartialOrd, Ord)]
pub struct Slot {
	pub port: u8,
	pub follower: bool,
}

#[derive(Clone, Debug, PartialEq, Eq)]
pub struct CharData {
	/// payload after the 6-byte header
	pub pre: Vec<u8>,
	pub post: Vec<u8>,
}

#[derive(Clone, Debug, PartialEq, Eq)]
pub struct FrameOcc {
	pub id: i32,
	/// payload after the frame id (≥ 2.2)
	pub start: Option<Vec<u8>>,
	/// one entry per slot of `ModelGame::slots()`, `None` = absent in this occurrence
	pub chars: Vec<Option<CharData>>,
	/// payload after the frame id (≥ 3.0)
	pub items: Vec<Vec<u8>>,
	/// payload after the frame id (≥ 3.0)
	pub end: Option<Vec<u8>>,
}

#[derive(Clone, Debug, PartialEq, Eq)]
pub struct PortSpec {
	pub port: u8,
	pub ics: bool,
}

/// Extra trailing bytes per known event (files of versions newer than peppi knows; C08).
#[derive(Clone, Debug, Default, PartialEq, Eq)]
pub struct Extra {
	pub pre: usize,
	pub post: usize,
	pub item: usize,
	pub fstart: usize,
	pub fend: usize,
	/// extra bytes after the known fields of Game Start / Game End (already part of `start` / `end` bytes)
	pub gstart: usize,
	pub gend: usize,
}

#[derive(Clone, Debug, PartialEq, Eq)]
pub struct ModelGame {
	pub version: (u8, u8, u8),
	/// Version whose layout is used for event sizes (== version's (major, minor) except for "newer" files).
	pub layout: (u8, u8),
	pub start: Vec<u8>,
	pub ports: Vec<PortSpec>,
	pub frames: Vec<FrameOcc>,
	pub gecko: Option<Gecko>,
	pub end: EndSpec,
	pub metadata: Option<Vec<(String, Meta)>>,
	pub extra: Extra,
}

impl ModelGame {
	pub fn v(&self) -> (u8, u8) {
		self.layout
	}
	pub fn slots(&self) -> Vec<Slot> {
		let mut s = Vec::new();
		for p in &self.ports {
			s.push(Slot { port: p.port, follower: false });
			if p.ics {
				s.push(Slot { port: p.port, follower: true });
			}
		}
		s
	}
	pub fn has_fstart(&self) -> bool {
		spec::gte(self.v(), (2, 2))
	}
	pub fn has_fend(&self) -> bool {
		spec::gte(self.v(), (3, 0))
	}
	pub fn size_of(&self, k: Kind) -> usize {
		spec::event_size(k, self.v())
			+ match k {
				Kind::Pre => self.extra.pre,
				Kind::Post => self.extra.post,
				Kind::Item => self.extra.item,
				Kind::FrameStart => self.extra.fstart,
				Kind::FrameEnd => self.extra.fend,
			}
	}
	pub fn end_len(&self) -> usize {
		self.end.bytes().map_or(spec::end_size(self.v()), |b| b.len())
	}
	pub fn gecko_table_size(&self) -> Option<u16> {
		self.gecko.as_ref().map(|g| g.actual as u16)
	}

	pub fn table(&self) -> Vec<(u8, u16)> {
		let v = self.v();
		let mut t = vec![
			(spec::EV_GAME_START, self.start.len() as u16),
			(spec::EV_PRE, self.size_of(Kind::Pre) as u16),
			(spec::EV_POST, self.size_of(Kind::Post) as u16),
			(spec::EV_GAME_END, self.end_len() as u16),
		];
		if spec::gte(v, (2, 2)) {
			t.push((spec::EV_FRAME_START, self.size_of(Kind::FrameStart) as u16));
		}
		if spec::gte(v, (3, 0)) {
			t.push((spec::EV_ITEM, self.size_of(Kind::Item) as u16));
			t.push((spec::EV_FRAME_END, self.size_of(Kind::FrameEnd) as u16));
		}
		if spec::gte(v, (3, 3)) {
			if let Some(g) = self.gecko_table_size() {
				t.push((spec::EV_GECKO, g));
				t.push((spec::EV_SPLITTER, 516));
			}
		}
		t
	}

	/// The event sequence the recorder writes.
	pub fn events(&self) -> Vec<Ev> {
		let mut ev = Vec::new();
		ev.push(Ev::new(spec::EV_GAME_START, self.start.clone(), Where::Start));
		if let Some(g) = &self.gecko {
			let n = g.bytes.len() / 512;
			for b in 0..n {
				let mut p = g.bytes[b * 512..(b + 1) * 512].to_vec();
				let this = std::cmp::min(512, g.actual as usize - b * 512) as u16;
				p.extend_from_slice(&this.to_be_bytes());
				p.push(spec::EV_GECKO);
				p.push((b + 1 == n) as u8);
				ev.push(Ev::new(spec::EV_SPLITTER, p, Where::Gecko));
			}
		}
		let slots = self.slots();
		for (fi, f) in self.frames.iter().enumerate() {
			let idb = f.id.to_be_bytes();
			if let Some(s) = &f.start {
				let mut p = idb.to_vec();
				p.extend_from_slice(s);
				ev.push(Ev::new(spec::EV_FRAME_START, p, Where::Frame(fi)));
			}
			for (si, slot) in slots.iter().enumerate() {
				if let Some(c) = &f.chars[si] {
					let mut p = idb.to_vec();
					p.push(slot.port);
					p.push(slot.follower as u8);
					p.extend_from_slice(&c.pre);
					ev.push(Ev::new(spec::EV_PRE, p, Where::Frame(fi)));
				}
			}
			for it in &f.items {
				let mut p = idb.to_vec();
				p.extend_from_slice(it);
				ev.push(Ev::new(spec::EV_ITEM, p, Where::Frame(fi)));
			}
			for (si, slot) in slots.iter().enumerate() {
				if let Some(c) = &f.chars[si] {
					let mut p = idb.to_vec();
					p.push(slot.port);
					p.push(slot.follower as u8);
					p.extend_from_slice(&c.post);
					ev.push(Ev::new(spec::EV_POST, p, Where::Frame(fi)));
				}
			}
			if let Some(e) = &f.end {
				let mut p = idb.to_vec();
				p.extend_from_slice(e);
				ev.push(Ev::new(spec::EV_FRAME_END, p, Where::Frame(fi)));
			}
		}
		match &self.end {
			EndSpec::None => {}
			EndSpec::One(b) => ev.push(Ev::new(spec::EV_GAME_END, b.clone(), Where::End)),
			EndSpec::Two(b) => {
				ev.push(Ev::new(spec::EV_GAME_END, b.clone(), Where::End));
				ev.push(Ev::new(spec::EV_GAME_END, b.clone(), Where::End));
			}
		}
		ev
	}

	pub fn raw(&self) -> RawFile {
		RawFile {
			table: self.table(),
			events: self.events(),
			metadata: self.metadata.as_ref().map(|m| {
				let mut b = Vec::new();
				ubjson_map_body(m, &mut b);
				b
			}),
			raw_len: None,
			tail: Vec::new(),
		}
	}

	pub fn encode(&self) -> Vec<u8> {
		self.raw().serialize()
	}

	pub fn summary(&self) -> serde_json::Value {
		let rollbacks = self.frames.windows(2).filter(|w| w[1].id <= w[0].id).count();
		let absent: usize =
			self.frames.iter().map(|f| f.chars.iter().filter(|c| c.is_none()).count()).sum();
		let items: usize = self.frames.iter().map(|f| f.items.len()).sum();
		serde_json::json!({
			"version": format!("{}.{}.{}", self.version.0, self.version.1, self.version.2),
			"ports": self.ports.iter().map(|p| format!("P{}{}", p.port + 1, if p.ics {"+ICs"} else {""})).collect::<Vec<_>>(),
			"frames": self.frames.len(),
			"ids": self.frames.iter().take(12).map(|f| f.id).collect::<Vec<_>>(),
			"rollbacks": rollbacks,
			"absent_chars": absent,
			"items": items,
			"gecko_blocks": self.gecko.as_ref().map(|g| g.bytes.len()/512),
			"end": match &self.end { EndSpec::None => "none", EndSpec::One(_) => "single", EndSpec::Two(_) => "doubled" },
			"metadata": self.metadata.as_ref().map(|m| m.len()),
		})
	}
}

#[derive(Clone, Copy, Debug, PartialEq, Eq)]
pub enum Where {
	Start,
	Gecko,
	Frame(usize),
	End,
	Other,
}

#[derive(Clone, Debug, PartialEq, Eq)]
pub struct Ev {
	pub code: u8,
	pub payload: Vec<u8>,
	pub at: Where,
}

impl Ev {
	pub fn new(code: u8, payload: Vec<u8>, at: Where) -> Self {
		Ev { code, payload, at }
	}
}

/// A file as table + event list + metadata bytes; the unit structural mutators work on.
#[derive(Clone, Debug, PartialEq, Eq)]
pub struct RawFile {
	pub table: Vec<(u8, u16)>,
	pub events: Vec<Ev>,
	/// UBJSON map body *including* the closing brace of the metadata map
	pub metadata: Option<Vec<u8>>,
	/// declared raw length; None = the true length
	pub raw_len: Option<u32>,
	/// bytes inside the raw element after the last event (junk after Game End)
	pub tail: Vec<u8>,
}

impl RawFile {
	pub fn raw_body(&self) -> Vec<u8> {
		let mut b = Vec::new();
		b.push(spec::EV_PAYLOADS);
		b.push((self.table.len() * 3 + 1) as u8);
		for (c, s) in &self.table {
			b.push(*c);
			b.extend_from_slice(&s.to_be_bytes());
		}
		for e in &self.events {
			b.push(e.code);
			b.extend_from_slice(&e.payload);
		}
		b.extend_from_slice(&self.tail);
		b
	}

	pub fn serialize(&self) -> Vec<u8> {
		let body = self.raw_body();
		let mut out = Vec::with_capacity(body.len() + 64);
		out.extend_from_slice(&spec::FILE_SIG);
		out.extend_from_slice(&self.raw_len.unwrap_or(body.len() as u32).to_be_bytes());
		out.extend_from_slice(&body);
		if let Some(m) = &self.metadata {
			out.extend_from_slice(&spec::META_KEY);
			out.extend_from_slice(m);
		}
		out.push(b'}');
		out
	}

	/// Byte offset (in the serialized file) of the start of each event (its command byte), plus the
	/// offset just past the last event.
	pub fn event_offsets(&self) -> Vec<usize> {
		let mut off = 15 + 2 + 3 * self.table.len();
		let mut v = Vec::with_capacity(self.events.len() + 1);
		for e in &self.events {
			v.push(off);
			off += 1 + e.payload.len();
		}
		v.push(off);
		v
	}
}

/// Independent walker: `.slp` bytes -> RawFile (table, events, metadata bytes). Used for the fixture
/// self-test and to locate the raw element in written files (C17).
pub fn walk(bytes: &[u8]) -> Result<RawFile, String> {
	if bytes.len() < 15 || bytes[..11] != spec::FILE_SIG {
		return Err("bad signature".into());
	}
	let raw_len = u32::from_be_bytes(bytes[11..15].try_into().unwrap()) as usize;
	let raw = bytes.get(15..15 + raw_len).ok_or("raw element longer than file")?;
	if raw.len() < 2 || raw[0] != spec::EV_PAYLOADS {
		return Err("no payloads event".into());
	}
	let n = raw[1] as usize;
	if n % 3 != 1 || raw.len() < 1 + n {
		return Err("bad payloads size".into());
	}
	let mut table = Vec::new();
	let mut sizes = [0usize; 256];
	let mut i = 2;
	while i < 1 + n {
		let c = raw[i];
		let s = u16::from_be_bytes([raw[i + 1], raw[i + 2]]);
		table.push((c, s));
		sizes[c as usize] = s as usize;
		i += 3;
	}
	let mut events = Vec::new();
	let mut tail = Vec::new();
	let mut seen_end = false;
	while i < raw.len() {
		let c = raw[i];
		let s = sizes[c as usize];
		if s == 0 || i + 1 + s > raw.len() {
			if seen_end {
				tail = raw[i..].to_vec();
				break;
			}
			return Err(format!("event {:#x} at raw offset {} does not fit (size {})", c, i, s));
		}
		events.push(Ev::new(c, raw[i + 1..i + 1 + s].to_vec(), Where::Other));
		if c == spec::EV_GAME_END {
			seen_end = true;
		}
		i += 1 + s;
	}
	let rest = &bytes[15 + raw_len..];
	let metadata = if rest.starts_with(&spec::META_KEY) {
		if rest.last() != Some(&b'}') {
			return Err("no closing brace".into());
		}
		Some(rest[spec::META_KEY.len()..rest.len() - 1].to_vec())
	} else if rest == b"}" {
		None
	} else {
		return Err(format!("unexpected bytes after raw element: {:02x?}", &rest[..rest.len().min(8)]));
	};
	Ok(RawFile { table, events, metadata, raw_len: None, tail })
}

/// Independent decoder: event list -> ModelGame (the reference reading of a file, irregular
/// intra-frame order tolerated). Used for the fixture cross-check and for C17's expectations.
/// Unknown event codes are ignored, as is anything after the first Game End except an identical
/// duplicate Game End.
pub fn model_from_raw(raw: &RawFile) -> Result<ModelGame, String> {
	use crate::spec::gs;
	let st = raw.events.first().ok_or("no events")?;
	if st.code != spec::EV_GAME_START {
		return Err("first event is not Game Start".into());
	}
	let start = st.payload.clone();
	if start.len() < 320 {
		return Err("start block too short".into());
	}
	let version = (start[0], start[1], start[2]);
	let v = (version.0, version.1);
	let layout = if v > (3, 16) { (3, 16) } else { v };
	let mut ports = Vec::new();
	for i in 0..4 {
		let b = gs::PLAYERS + i * gs::PLAYER_LEN;
		if start[b + gs::P_TYPE] <= 2 {
			ports.push(PortSpec { port: i as u8, ics: start[b + gs::P_CHAR] == spec::ICE_CLIMBERS });
		}
	}
	let size_of = |c: u8| raw.table.iter().rev().find(|(k, _)| *k == c).map(|(_, s)| *s as usize);
	let ex = |k: Kind| -> Result<usize, String> {
		match size_of(k.code()) {
			Some(s) => s.checked_sub(spec::event_size(k, layout)).ok_or(format!("{:?} payload shorter than spec", k)),
			None => Ok(0),
		}
	};
	let extra = Extra { pre: ex(Kind::Pre)?, post: ex(Kind::Post)?, item: ex(Kind::Item)?, fstart: ex(Kind::FrameStart)?, fend: ex(Kind::FrameEnd)?, gstart: 0, gend: 0 };
	let mut m = ModelGame { version, layout, start, ports, frames: Vec::new(), gecko: None, end: EndSpec::None, metadata: None, extra };
	let slots = m.slots();
	let ns = slots.len();
	let mut gecko_bytes: Vec<u8> = Vec::new();
	let mut gecko_actual: u32 = 0;
	let id_of = |p: &[u8]| i32::from_be_bytes([p[0], p[1], p[2], p[3]]);
	let new_frame = |id: i32| FrameOcc { id, start: None, chars: vec![None; ns], items: Vec::new(), end: None };
	let mut it = raw.events.iter().skip(1).peekable();
	while let Some(e) = it.next() {
		match e.code {
			spec::EV_SPLITTER => {
				let p = &e.payload;
				if p.len() != 516 {
					return Err("splitter size".into());
				}
				gecko_bytes.extend_from_slice(&p[..512]);
				gecko_actual += u16::from_be_bytes([p[512], p[513]]) as u32;
				if p[515] != 0 && p[514] == spec::EV_GECKO {
					m.gecko = Some(Gecko { bytes: std::mem::take(&mut gecko_bytes), actual: gecko_actual });
				}
			}
			spec::EV_FRAME_START => {
				let mut f = new_frame(id_of(&e.payload));
				f.start = Some(e.payload[4..].to_vec());
				m.frames.push(f);
			}
			spec::EV_PRE | spec::EV_POST => {
				let id = id_of(&e.payload);
				let (port, fol) = (e.payload[4], e.payload[5] != 0);
				let si = slots.iter().position(|s| s.port == port && s.follower == fol).ok_or(format!("event for unoccupied slot {}:{}", port, fol))?;
				if e.code == spec::EV_PRE && !spec::gte(layout, (2, 2)) && m.frames.last().map_or(true, |f| f.id != id) {
					m.frames.push(new_frame(id));
				}
				let f = m.frames.last_mut().ok_or("character event before any frame")?;
				if f.id != id {
					return Err(format!("event id {} in frame {}", id, f.id));
				}
				let c = f.chars[si].get_or_insert_with(|| CharData { pre: Vec::new(), post: Vec::new() });
				if e.code == spec::EV_PRE {
					c.pre = e.payload[6..].to_vec();
				} else {
					c.post = e.payload[6..].to_vec();
				}
			}
			spec::EV_ITEM => {
				let f = m.frames.last_mut().ok_or("item before any frame")?;
				f.items.push(e.payload[4..].to_vec());
			}
			spec::EV_FRAME_END => {
				let f = m.frames.last_mut().ok_or("frame end before any frame")?;
				f.end = Some(e.payload[4..].to_vec());
			}
			spec::EV_GAME_END => {
				let dup = it.peek().map_or(false, |n| n.code == spec::EV_GAME_END) && raw.tail.is_empty();
				m.end = if dup { EndSpec::Two(e.payload.clone()) } else { EndSpec::One(e.payload.clone()) };
				break;
			}
			_ => {}
		}
	}
	if let Some(md) = &raw.metadata {
		m.metadata = Some(parse_ubjson_map(&mut &md[..])?);
	}
	Ok(m)
}

fn take<'a>(r: &mut &'a [u8], n: usize) -> Result<&'a [u8], String> {
	if r.len() < n {
		return Err("ubjson: short".into());
	}
	let (a, b) = r.split_at(n);
	*r = b;
	Ok(a)
}

/// body of a map up to and including its closing brace
pub fn parse_ubjson_map(r: &mut &[u8]) -> Result<Vec<(String, Meta)>, String> {
	let mut out = Vec::new();
	loop {
		match take(r, 1)?[0] {
			b'}' => return Ok(out),
			b'U' => {
				let n = take(r, 1)?[0] as usize;
				let k = String::from_utf8(take(r, n)?.to_vec()).map_err(|e| e.to_string())?;
				let v = match take(r, 1)?[0] {
					b'S' => {
						if take(r, 1)?[0] != b'U' {
							return Err("ubjson: string length type".into());
						}
						let n = take(r, 1)?[0] as usize;
						Meta::Str(String::from_utf8(take(r, n)?.to_vec()).map_err(|e| e.to_string())?)
					}
					b'l' => Meta::Int(i32::from_be_bytes(take(r, 4)?.try_into().unwrap())),
					b'{' => Meta::Map(parse_ubjson_map(r)?),
					c => return Err(format!("ubjson: value type {:#x}", c)),
				};
				out.push((k, v));
			}
			c => return Err(format!("ubjson: key type {:#x}", c)),
		}
	}
}
