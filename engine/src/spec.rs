//! INDEPENDENT spec tables. Hand-written from the Slippi replay spec; nothing here is read from
//! peppi or `gen/resources/frames.json`. Offsets are from the start of the event *payload*
//! (i.e. spec offset − 1, the command byte is not part of the payload).

#[derive(Clone, Copy, Debug, PartialEq, Eq, Hash)]
pub enum Ty {
	U8,
	I8,
	U16,
	U32,
	I32,
	F32,
}

impl Ty {
	pub fn size(self) -> usize {
		match self {
			Ty::U8 | Ty::I8 => 1,
			Ty::U16 => 2,
			Ty::U32 | Ty::I32 | Ty::F32 => 4,
		}
	}
	pub fn name(self) -> &'static str {
		match self {
			Ty::U8 => "u8",
			Ty::I8 => "i8",
			Ty::U16 => "u16",
			Ty::U32 => "u32",
			Ty::I32 => "i32",
			Ty::F32 => "f32",
		}
	}
}

#[derive(Clone, Copy, Debug, PartialEq, Eq, Hash)]
pub enum Kind {
	Pre,
	Post,
	Item,
	FrameStart,
	FrameEnd,
}

impl Kind {
	pub const ALL: [Kind; 5] = [Kind::Pre, Kind::Post, Kind::Item, Kind::FrameStart, Kind::FrameEnd];
	pub fn name(self) -> &'static str {
		match self {
			Kind::Pre => "pre",
			Kind::Post => "post",
			Kind::Item => "item",
			Kind::FrameStart => "start",
			Kind::FrameEnd => "end",
		}
	}
	pub fn code(self) -> u8 {
		match self {
			Kind::Pre => EV_PRE,
			Kind::Post => EV_POST,
			Kind::Item => EV_ITEM,
			Kind::FrameStart => EV_FRAME_START,
			Kind::FrameEnd => EV_FRAME_END,
		}
	}
	/// Bytes before the first leaf (frame id [+ port + follower flag]).
	pub fn header(self) -> usize {
		match self {
			Kind::Pre | Kind::Post => 6,
			_ => 4,
		}
	}
	/// First version in which the event exists at all.
	pub fn since(self) -> (u8, u8) {
		match self {
			Kind::Pre | Kind::Post => (0, 1),
			Kind::FrameStart => (2, 2),
			Kind::Item | Kind::FrameEnd => (3, 0),
		}
	}
}

#[derive(Clone, Copy, Debug)]
pub struct Leaf {
	pub kind: Kind,
	pub path: &'static str,
	pub ty: Ty,
	pub off: usize,
	pub since: (u8, u8),
}

const fn l(kind: Kind, path: &'static str, ty: Ty, off: usize, since: (u8, u8)) -> Leaf {
	Leaf { kind, path, ty, off, since }
}

use Kind::*;
use Ty::*;

pub const LEAVES: &[Leaf] = &[
	// Pre-Frame Update (0x37). Spec: 0x7 random seed … 0x40 raw analog y.
	l(Pre, "random_seed", U32, 0x06, (0, 1)),
	l(Pre, "state", U16, 0x0A, (0, 1)),
	l(Pre, "position.x", F32, 0x0C, (0, 1)),
	l(Pre, "position.y", F32, 0x10, (0, 1)),
	l(Pre, "direction", F32, 0x14, (0, 1)),
	l(Pre, "joystick.x", F32, 0x18, (0, 1)),
	l(Pre, "joystick.y", F32, 0x1C, (0, 1)),
	l(Pre, "cstick.x", F32, 0x20, (0, 1)),
	l(Pre, "cstick.y", F32, 0x24, (0, 1)),
	l(Pre, "triggers", F32, 0x28, (0, 1)),
	l(Pre, "buttons", U32, 0x2C, (0, 1)),
	l(Pre, "buttons_physical", U16, 0x30, (0, 1)),
	l(Pre, "triggers_physical.l", F32, 0x32, (0, 1)),
	l(Pre, "triggers_physical.r", F32, 0x36, (0, 1)),
	l(Pre, "raw_analog_x", I8, 0x3A, (1, 2)),
	l(Pre, "percent", F32, 0x3B, (1, 4)),
	l(Pre, "raw_analog_y", I8, 0x3F, (3, 15)),
	// Post-Frame Update (0x38). Spec: 0x7 internal character id … 0x53 instance id.
	l(Post, "character", U8, 0x06, (0, 1)),
	l(Post, "state", U16, 0x07, (0, 1)),
	l(Post, "position.x", F32, 0x09, (0, 1)),
	l(Post, "position.y", F32, 0x0D, (0, 1)),
	l(Post, "direction", F32, 0x11, (0, 1)),
	l(Post, "percent", F32, 0x15, (0, 1)),
	l(Post, "shield", F32, 0x19, (0, 1)),
	l(Post, "last_attack_landed", U8, 0x1D, (0, 1)),
	l(Post, "combo_count", U8, 0x1E, (0, 1)),
	l(Post, "last_hit_by", U8, 0x1F, (0, 1)),
	l(Post, "stocks", U8, 0x20, (0, 1)),
	l(Post, "state_age", F32, 0x21, (0, 2)),
	l(Post, "state_flags.0", U8, 0x25, (2, 0)),
	l(Post, "state_flags.1", U8, 0x26, (2, 0)),
	l(Post, "state_flags.2", U8, 0x27, (2, 0)),
	l(Post, "state_flags.3", U8, 0x28, (2, 0)),
	l(Post, "state_flags.4", U8, 0x29, (2, 0)),
	l(Post, "misc_as", F32, 0x2A, (2, 0)),
	l(Post, "airborne", U8, 0x2E, (2, 0)),
	l(Post, "ground", U16, 0x2F, (2, 0)),
	l(Post, "jumps", U8, 0x31, (2, 0)),
	l(Post, "l_cancel", U8, 0x32, (2, 0)),
	l(Post, "hurtbox_state", U8, 0x33, (2, 1)),
	l(Post, "velocities.self_x_air", F32, 0x34, (3, 5)),
	l(Post, "velocities.self_y", F32, 0x38, (3, 5)),
	l(Post, "velocities.knockback_x", F32, 0x3C, (3, 5)),
	l(Post, "velocities.knockback_y", F32, 0x40, (3, 5)),
	l(Post, "velocities.self_x_ground", F32, 0x44, (3, 5)),
	l(Post, "hitlag", F32, 0x48, (3, 8)),
	l(Post, "animation_index", U32, 0x4C, (3, 11)),
	l(Post, "last_hit_by_instance", U16, 0x50, (3, 16)),
	l(Post, "instance_id", U16, 0x52, (3, 16)),
	// Item Update (0x3B). Spec: 0x5 type id … 0x2B instance id.
	l(Item, "type", U16, 0x04, (3, 0)),
	l(Item, "state", U8, 0x06, (3, 0)),
	l(Item, "direction", F32, 0x07, (3, 0)),
	l(Item, "velocity.x", F32, 0x0B, (3, 0)),
	l(Item, "velocity.y", F32, 0x0F, (3, 0)),
	l(Item, "position.x", F32, 0x13, (3, 0)),
	l(Item, "position.y", F32, 0x17, (3, 0)),
	l(Item, "damage", U16, 0x1B, (3, 0)),
	l(Item, "timer", F32, 0x1D, (3, 0)),
	l(Item, "id", U32, 0x21, (3, 0)),
	l(Item, "misc.0", U8, 0x25, (3, 2)),
	l(Item, "misc.1", U8, 0x26, (3, 2)),
	l(Item, "misc.2", U8, 0x27, (3, 2)),
	l(Item, "misc.3", U8, 0x28, (3, 2)),
	l(Item, "owner", I8, 0x29, (3, 6)),
	l(Item, "instance_id", U16, 0x2A, (3, 16)),
	// Frame Start (0x3A)
	l(FrameStart, "random_seed", U32, 0x04, (2, 2)),
	l(FrameStart, "scene_frame_counter", U32, 0x08, (3, 10)),
	// Frame Bookend (0x3C)
	l(FrameEnd, "latest_finalized_frame", I32, 0x04, (3, 7)),
];

pub const EV_SPLITTER: u8 = 0x10;
pub const EV_PAYLOADS: u8 = 0x35;
pub const EV_GAME_START: u8 = 0x36;
pub const EV_PRE: u8 = 0x37;
pub const EV_POST: u8 = 0x38;
pub const EV_GAME_END: u8 = 0x39;
pub const EV_FRAME_START: u8 = 0x3A;
pub const EV_ITEM: u8 = 0x3B;
pub const EV_FRAME_END: u8 = 0x3C;
pub const EV_GECKO: u8 = 0x3D;

pub const KNOWN_CODES: [u8; 10] = [0x10, 0x35, 0x36, 0x37, 0x38, 0x39, 0x3A, 0x3B, 0x3C, 0x3D];

pub const FILE_SIG: [u8; 11] = [0x7b, 0x55, 0x03, 0x72, 0x61, 0x77, 0x5b, 0x24, 0x55, 0x23, 0x6c];
pub const META_KEY: [u8; 11] = [0x55, 0x08, 0x6d, 0x65, 0x74, 0x61, 0x64, 0x61, 0x74, 0x61, 0x7b];

pub const MAX_VERSION: (u8, u8, u8) = (3, 16, 0);
pub const FIRST_FRAME: i32 = -123;
pub const ICE_CLIMBERS: u8 = 14;

pub fn gte(v: (u8, u8), m: (u8, u8)) -> bool {
	v >= m
}

pub fn leaves(kind: Kind) -> impl Iterator<Item = &'static Leaf> {
	LEAVES.iter().filter(move |l| l.kind == kind)
}

pub fn leaf(kind: Kind, path: &str) -> &'static Leaf {
	LEAVES.iter().find(|l| l.kind == kind && l.path == path).unwrap()
}

/// Payload size (without command byte) of a frame-level event in version `v`.
pub fn event_size(kind: Kind, v: (u8, u8)) -> usize {
	leaves(kind)
		.filter(|l| gte(v, l.since))
		.map(|l| l.off + l.ty.size())
		.max()
		.unwrap_or(0)
		.max(kind.header())
}

/// Game Start payload length classes: (since, length).
pub const START_CLASSES: [((u8, u8), usize); 10] = [
	((0, 1), 320),
	((1, 0), 352),
	((1, 3), 416),
	((1, 5), 417),
	((2, 0), 418),
	((3, 7), 420),
	((3, 9), 584),
	((3, 11), 700),
	((3, 12), 701),
	((3, 14), 760),
];

pub fn start_size(v: (u8, u8)) -> usize {
	START_CLASSES.iter().filter(|(s, _)| gte(v, *s)).map(|(_, n)| *n).max().unwrap()
}

pub const END_CLASSES: [((u8, u8), usize); 3] = [((0, 1), 1), ((2, 0), 2), ((3, 13), 6)];

pub fn end_size(v: (u8, u8)) -> usize {
	END_CLASSES.iter().filter(|(s, _)| gte(v, *s)).map(|(_, n)| *n).max().unwrap()
}

// Game Start payload offsets
pub mod gs {
	pub const VERSION: usize = 0;
	pub const BITFIELD: usize = 4;
	pub const BOMBS: usize = 10;
	pub const TEAMS: usize = 12;
	pub const ITEM_FREQ: usize = 15;
	pub const SD_SCORE: usize = 16;
	pub const STAGE: usize = 18;
	pub const TIMER: usize = 20;
	pub const ITEM_BITFIELD: usize = 39;
	pub const DAMAGE_RATIO: usize = 52;
	pub const PLAYERS: usize = 100;
	pub const PLAYER_LEN: usize = 36;
	pub const P_CHAR: usize = 0;
	pub const P_TYPE: usize = 1;
	pub const P_STOCKS: usize = 2;
	pub const P_COSTUME: usize = 3;
	pub const P_SHADE: usize = 7;
	pub const P_HANDICAP: usize = 8;
	pub const P_TEAM: usize = 9;
	pub const P_BITFIELD: usize = 12;
	pub const P_CPU: usize = 15;
	pub const P_OFFENSE: usize = 24;
	pub const P_DEFENSE: usize = 28;
	pub const P_SCALE: usize = 32;
	pub const SEED: usize = 316;
	pub const UCF: usize = 320; // + 8*i: dashback u32, shield drop u32
	pub const NAME_TAG: usize = 352; // + 16*i
	pub const PAL: usize = 416;
	pub const FROZEN_PS: usize = 417;
	pub const SCENE_MINOR: usize = 418;
	pub const SCENE_MAJOR: usize = 419;
	pub const NP_NAME: usize = 420; // + 31*i
	pub const NP_CODE: usize = 544; // + 10*i
	pub const NP_UID: usize = 584; // + 29*i
	pub const LANGUAGE: usize = 700;
	pub const MATCH_ID: usize = 701; // 51 bytes
	pub const GAME_NUMBER: usize = 752;
	pub const TIEBREAKER: usize = 756;
}

/// Payload table in the order the recorder writes it.
pub fn payload_table(v: (u8, u8), start_len: usize, end_len: usize, gecko_size: Option<u16>) -> Vec<(u8, u16)> {
	let mut t = vec![
		(EV_GAME_START, start_len as u16),
		(EV_PRE, event_size(Pre, v) as u16),
		(EV_POST, event_size(Post, v) as u16),
		(EV_GAME_END, end_len as u16),
	];
	if gte(v, (2, 2)) {
		t.push((EV_FRAME_START, event_size(FrameStart, v) as u16));
	}
	if gte(v, (3, 0)) {
		t.push((EV_ITEM, event_size(Item, v) as u16));
		t.push((EV_FRAME_END, event_size(FrameEnd, v) as u16));
	}
	if gte(v, (3, 3)) {
		if let Some(g) = gecko_size {
			t.push((EV_GECKO, g));
			t.push((EV_SPLITTER, 516));
		}
	}
	t
}

/// The 25 (major, minor) pairs at which some layout changes.
pub const LAYOUT_VERSIONS: [(u8, u8); 25] = [
	(0, 1), (0, 2), (1, 0), (1, 2), (1, 3), (1, 4), (1, 5), (2, 0), (2, 1), (2, 2), (3, 0), (3, 2), (3, 3),
	(3, 5), (3, 6), (3, 7), (3, 8), (3, 9), (3, 10), (3, 11), (3, 12), (3, 13), (3, 14), (3, 15), (3, 16),
];

/// All 784 (major, minor) pairs 0.1..=0.255, 1.*, 2.*, 3.0..=3.16.
pub fn all_minors() -> Vec<(u8, u8)> {
	let mut v = Vec::new();
	for m in 1..=255u8 {
		v.push((0, m));
	}
	for ma in 1..=2u8 {
		for m in 0..=255u8 {
			v.push((ma, m));
		}
	}
	for m in 0..=16u8 {
		v.push((3, m));
	}
	v
}

/// Start-up self-test of the tables. Panics (=> exit 2, "machinery broken") on disagreement.
pub fn self_test() {
	for k in Kind::ALL {
		// leaves are contiguous: each offset equals header + running sum of preceding leaf sizes
		let mut off = k.header();
		let mut last_since = (0u8, 0u8);
		for lf in leaves(k) {
			assert_eq!(lf.off, off, "spec table: {:?} {} offset", k, lf.path);
			assert!(lf.since >= last_since, "spec table: {:?} {} since order", k, lf.path);
			last_since = lf.since;
			off += lf.ty.size();
		}
	}
	// sizes the recorder is known to emit
	assert_eq!(event_size(Pre, (0, 1)), 58);
	assert_eq!(event_size(Pre, (1, 2)), 59);
	assert_eq!(event_size(Pre, (1, 4)), 63);
	assert_eq!(event_size(Pre, (3, 15)), 64);
	assert_eq!(event_size(Post, (0, 1)), 33);
	assert_eq!(event_size(Post, (0, 2)), 37);
	assert_eq!(event_size(Post, (2, 0)), 51);
	assert_eq!(event_size(Post, (2, 1)), 52);
	assert_eq!(event_size(Post, (3, 5)), 72);
	assert_eq!(event_size(Post, (3, 8)), 76);
	assert_eq!(event_size(Post, (3, 11)), 80);
	assert_eq!(event_size(Post, (3, 16)), 84);
	assert_eq!(event_size(Item, (3, 0)), 37);
	assert_eq!(event_size(Item, (3, 2)), 41);
	assert_eq!(event_size(Item, (3, 6)), 42);
	assert_eq!(event_size(Item, (3, 16)), 44);
	assert_eq!(event_size(FrameStart, (2, 2)), 8);
	assert_eq!(event_size(FrameStart, (3, 10)), 12);
	assert_eq!(event_size(FrameEnd, (3, 0)), 4);
	assert_eq!(event_size(FrameEnd, (3, 7)), 8);
	assert_eq!(start_size((3, 14)), 760);
	assert_eq!(start_size((0, 1)), 320);
	assert_eq!(gs::PLAYERS + 6 * gs::PLAYER_LEN, gs::SEED);
	assert_eq!(gs::UCF + 32, gs::NAME_TAG);
	assert_eq!(gs::NAME_TAG + 64, gs::PAL);
	assert_eq!(gs::NP_NAME + 124, gs::NP_CODE);
	assert_eq!(gs::NP_CODE + 40, gs::NP_UID);
	assert_eq!(gs::NP_UID + 116, gs::LANGUAGE);
	assert_eq!(gs::TIEBREAKER + 4, 760);
	assert_eq!(all_minors().len(), 784);
	assert_eq!(LEAVES.len(), 68);
}
