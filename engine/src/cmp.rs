//! Bit-exact comparators between peppi games, and between a peppi game and the model.

use peppi::game::immutable::Game;

use crate::access::{diff_views, view_immutable, view_model};
use crate::model::{Meta, ModelGame};

pub fn meta_string(m: &Option<serde_json::Map<String, serde_json::Value>>) -> String {
	match m {
		None => "<none>".into(),
		Some(m) => {
			// explicit ordered rendering (independent of serde_json's Serialize for Map)
			fn render(v: &serde_json::Value, out: &mut String) {
				match v {
					serde_json::Value::Object(o) => {
						out.push('{');
						for (k, v) in o {
							out.push_str(&format!("{:?}:", k));
							render(v, out);
							out.push(',');
						}
						out.push('}');
					}
					other => out.push_str(&other.to_string()),
				}
			}
			let mut s = String::new();
			render(&serde_json::Value::Object(m.clone()), &mut s);
			s
		}
	}
}

pub struct CmpOpts {
	pub frames: bool,
	pub hash: bool,
	pub quirks: bool,
}

impl Default for CmpOpts {
	fn default() -> Self {
		CmpOpts { frames: true, hash: true, quirks: true }
	}
}

pub fn diff_games(a: &Game, b: &Game, o: &CmpOpts) -> Result<(), String> {
	if a.start.bytes.0 != b.start.bytes.0 {
		return Err("start.bytes differ".into());
	}
	if format!("{:?}", a.start) != format!("{:?}", b.start) {
		return Err("start fields differ".into());
	}
	match (&a.end, &b.end) {
		(None, None) => {}
		(Some(x), Some(y)) => {
			if x.bytes.0 != y.bytes.0 {
				return Err("end.bytes differ".into());
			}
			if format!("{:?}", x) != format!("{:?}", y) {
				return Err("end fields differ".into());
			}
		}
		_ => return Err(format!("end presence differs: {} vs {}", a.end.is_some(), b.end.is_some())),
	}
	let (ma, mb) = (meta_string(&a.metadata), meta_string(&b.metadata));
	if ma != mb {
		return Err(format!("metadata differs: {} vs {}", trunc(&ma), trunc(&mb)));
	}
	match (&a.gecko_codes, &b.gecko_codes) {
		(None, None) => {}
		(Some(x), Some(y)) => {
			if x.bytes != y.bytes || x.actual_size != y.actual_size {
				return Err("gecko codes differ".into());
			}
		}
		_ => return Err("gecko presence differs".into()),
	}
	if o.frames {
		diff_views(&view_immutable(&a.frames), &view_immutable(&b.frames)).map_err(|e| format!("frames: {}", e))?;
	}
	if o.hash && a.hash != b.hash {
		return Err(format!("hash differs: {:?} vs {:?}", a.hash, b.hash));
	}
	if o.quirks {
		let qa = a.quirks.map_or(false, |q| q.double_game_end);
		let qb = b.quirks.map_or(false, |q| q.double_game_end);
		if qa != qb {
			return Err(format!("quirks differ: {:?} vs {:?}", a.quirks, b.quirks));
		}
	}
	Ok(())
}

pub fn trunc(s: &str) -> String {
	if s.len() > 160 {
		let mut e = 160;
		while !s.is_char_boundary(e) {
			e -= 1;
		}
		format!("{}…", &s[..e])
	} else {
		s.to_string()
	}
}

/// Ordered comparison of a peppi metadata map with the model tree.
pub fn meta_eq_json(model: &[(String, Meta)], got: &serde_json::Map<String, serde_json::Value>) -> Result<(), String> {
	if model.len() != got.len() {
		return Err(format!("map size {} vs {}", model.len(), got.len()));
	}
	for ((k, v), (gk, gv)) in model.iter().zip(got.iter()) {
		if k != gk {
			return Err(format!("key order/name: expected {:?}, got {:?}", k, gk));
		}
		match (v, gv) {
			(Meta::Str(s), serde_json::Value::String(g)) if s == g => {}
			(Meta::Int(i), serde_json::Value::Number(n)) if n.as_i64() == Some(*i as i64) => {}
			(Meta::Map(m), serde_json::Value::Object(o)) => meta_eq_json(m, o).map_err(|e| format!("{:?}.{}", k, e))?,
			_ => return Err(format!("value at key {:?}: expected {:?}, got {}", k, v, trunc(&gv.to_string()))),
		}
	}
	Ok(())
}

/// Does the parsed game match the model? (C03/C04/C08 oracle: everything observable.)
pub fn game_matches_model(g: &Game, m: &ModelGame) -> Result<(), String> {
	if g.start.bytes.0 != m.start {
		return Err("start.bytes != model start block".into());
	}
	match (&g.end, m.end.bytes()) {
		(None, None) => {}
		(Some(e), Some(b)) => {
			if &e.bytes.0 != b {
				return Err("end.bytes != model end block".into());
			}
		}
		(a, b) => return Err(format!("end presence: game {} model {}", a.is_some(), b.is_some())),
	}
	match (&g.metadata, &m.metadata) {
		(None, None) => {}
		(Some(a), Some(b)) => meta_eq_json(b, a).map_err(|e| format!("metadata: {}", e))?,
		(a, b) => return Err(format!("metadata presence: game {} model {}", a.is_some(), b.is_some())),
	}
	match (&g.gecko_codes, &m.gecko) {
		(None, None) => {}
		(Some(a), Some(b)) => {
			if a.bytes != b.bytes || a.actual_size != b.actual {
				return Err("gecko codes != model".into());
			}
		}
		(a, b) => return Err(format!("gecko presence: game {} model {}", a.is_some(), b.is_some())),
	}
	diff_views(&view_immutable(&g.frames), &view_model(m)).map_err(|e| format!("frames vs model: {}", e))
}
