//! Start-up self-tests that tie the independent encoder/tables to the repository's fixture files.

use crate::model::walk;
use crate::rt::Ctx;
use crate::spec;

pub fn fixture_dir() -> String {
	std::env::var("PV_REPO").unwrap_or_else(|_| "/repo".into()) + "/tests/data"
}

/// Every fixture must be in the image of the engine's serializer (walk -> serialize == identity) and
/// its payload table must be exactly the recorder-order table of `spec::payload_table` for its
/// version (unknown codes tolerated at the end). Panics (exit 2) on disagreement: the machinery, not
/// peppi, would be wrong.
pub fn fixtures(ctx: &Ctx) {
	let mut n = 0;
	let mut names = Vec::new();
	let dir = fixture_dir();
	let mut entries: Vec<_> = match std::fs::read_dir(&dir) {
		Ok(d) => d.filter_map(|e| e.ok()).map(|e| e.path()).collect(),
		Err(_) => {
			ctx.put("fixture_selftest", serde_json::json!("fixture directory not found; skipped"));
			return;
		}
	};
	entries.sort();
	for p in entries {
		let name = p.file_name().unwrap().to_string_lossy().to_string();
		if !name.ends_with(".slp") || name == "corrupt.slp" {
			continue;
		}
		let bytes = std::fs::read(&p).unwrap();
		let raw = walk(&bytes).unwrap_or_else(|e| panic!("selftest: cannot walk fixture {}: {}", name, e));
		assert!(raw.serialize() == bytes, "selftest: fixture {} is not in the image of the engine's serializer", name);
		let start = &raw.events[0];
		assert_eq!(start.code, spec::EV_GAME_START);
		let v = (start.payload[0], start.payload[1]);
		let size_of = |c: u8| raw.table.iter().find(|(k, _)| *k == c).map(|(_, s)| *s);
		let gecko = size_of(spec::EV_GECKO);
		let want = spec::payload_table(v, size_of(spec::EV_GAME_START).unwrap() as usize, size_of(spec::EV_GAME_END).unwrap() as usize, gecko);
		let known: Vec<(u8, u16)> = raw.table.iter().copied().filter(|(c, _)| spec::KNOWN_CODES.contains(c)).collect();
		assert_eq!(known, want, "selftest: payload table of fixture {} (version {:?})", name, v);
		assert_eq!(size_of(spec::EV_GAME_START).unwrap() as usize, spec::start_size(v), "selftest: start size of {}", name);
		n += 1;
		names.push(format!("{}@{}.{}", name, v.0, v.1));
	}
	ctx.put("fixture_selftest", serde_json::json!({ "fixtures_in_encoder_image": n, "files": names }));
}

/// Fixtures decoded through the engine's own walker + spec tables must agree with peppi's read
/// (guards the tables against my own misreading of the spec: real recorder output, 9 versions).
pub fn fixtures_vs_model(ctx: &Ctx) {
	let dir = fixture_dir();
	let mut entries: Vec<_> = match std::fs::read_dir(&dir) {
		Ok(d) => d.filter_map(|e| e.ok()).map(|e| e.path()).collect(),
		Err(_) => return,
	};
	entries.sort();
	let mut ok = 0;
	let mut disagreements = Vec::new();
	for p in entries {
		let name = p.file_name().unwrap().to_string_lossy().to_string();
		if !name.ends_with(".slp") || name == "corrupt.slp" {
			continue;
		}
		// keep start-up cheap: the big fixtures are covered by the smaller ones of the same version
		if std::fs::metadata(&p).map(|m| m.len()).unwrap_or(0) > 1_600_000 && !name.starts_with("v") {
			continue;
		}
		let bytes = std::fs::read(&p).unwrap();
		let raw = crate::model::walk(&bytes).unwrap();
		let m = match crate::model::model_from_raw(&raw) {
			Ok(m) => m,
			Err(e) => {
				disagreements.push(format!("{}: engine decoder: {}", name, e));
				continue;
			}
		};
		match crate::rt::slp_read_default(&bytes) {
			crate::rt::Out::Ok(g) => match crate::cmp::game_matches_model(&g, &m) {
				Ok(()) => ok += 1,
				Err(e) => disagreements.push(format!("{}: {}", name, e)),
			},
			o => disagreements.push(format!("{}: peppi read {}", name, o.kind())),
		}
	}
	ctx.put("fixtures_agreeing_with_engine_decoder", serde_json::json!(ok));
	if !disagreements.is_empty() {
		// not a verdict by itself (either side may be wrong); shown so it is examined by hand
		ctx.put("fixture_disagreements", serde_json::json!(disagreements));
		eprintln!("note: fixture disagreements (examine by hand): {:?}", disagreements);
	}
}
