#![no_main]
use libfuzzer_sys::fuzz_target;

fuzz_target!(|data: &[u8]| {
	pv::props::fuzz_entry("irregular_fixpoint", data);
});
